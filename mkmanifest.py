#!/usr/bin/env python3
"""Regenerate MANIFEST.json from checkcfg.py (run after adding or changing a check)."""
import json, os, subprocess, sys
VERIF = os.path.dirname(os.path.abspath(__file__))
sys.path.insert(0, VERIF)
from checkcfg import PROPS, MANIFEST_META, NOT_APPLICABLE

props = [json.loads(l)['id'] for l in open(os.path.join(VERIF, 'properties.jsonl'))]
hooks_commits = MANIFEST_META['hook_commits']
checks = []
engines = {}
for pid in props:
    if pid not in PROPS:
        continue
    c = PROPS[pid]
    eng = sorted({l['bin'] for l in c['legs']})
    for e in eng:
        engines.setdefault(e, []).append(pid)
    entry = dict(
        property_id=pid,
        quick_cmd='./check %s --tier quick' % pid,
        thorough_cmd='./check %s --tier thorough' % pid,
        evidence_file='/verif/evidence/%s.json' % pid,
        replay_cmd_template='./check %s --replay {path}' % pid,
        engine='+'.join(eng),
        level_claimed=dict(category=c.get('level', 'exploration'), text=c['level_text'], design_ref=c.get('design_ref', 'DESIGN.md section 6, ' + pid)),
        level_note=c['level_note'],
        technique=c['technique'],
    )
    checks.append(entry)
na = [dict(property_id=p, reason=NOT_APPLICABLE.get(p, 'check not built yet (work in progress; DESIGN.md section 12 gives the build order)'))
      for p in props if p not in PROPS]
m = dict(
    version=1,
    setup_cmd='./check --setup',
    hooks=dict(guard='--cfg calloop_verif',
               enable='RUSTFLAGS="--cfg calloop_verif" (set by ./check for every build; the harness crate depends on /repo by path, so every build uses /repo\'s working tree)',
               baseline_off_cmd='cd /repo && cargo test --workspace --no-fail-fast --offline',
               source_commits=hooks_commits, add_only=True),
    engines=[dict(name=e, path='harness/src/bin/%s.rs' % e, serves_properties=ps, kind_free_text=MANIFEST_META['engines'].get(e, '')) for e, ps in sorted(engines.items())],
    checks=checks,
    notes=MANIFEST_META['notes'],
    not_applicable=na,
)
json.dump(m, open(os.path.join(VERIF, 'MANIFEST.json'), 'w'), indent=1)
print('MANIFEST.json: %d checks, %d not_applicable' % (len(checks), len(na)))
