//! Thread-schedule engine driver (C03 C04 C10 C11).

use calloop::verif::Site;
use cverif::sched::{self, SchedCase};
use cverif::*;
use serde_json::json;
use std::time::Instant;

fn workload_for(prop: &str) -> (&'static str, Vec<Site>) {
    match prop {
        "C03" => ("ping", sched::ping::SITES.to_vec()),
        "C04" => ("chan", sched::chan::SITES.to_vec()),
        "C10" => ("exec", sched::exec::SITES.to_vec()),
        _ => ("lsig", sched::lsig::SITES.to_vec()),
    }
}

fn make_case(args: &Args, case: u64, miri: bool) -> SchedCase {
    let (wl, sites) = workload_for(&args.prop);
    let mut rng = Rng::derive(args.seed, case, fnv_str(&args.prop));
    let small = miri || args.get_str("small").is_some();
    let threads = if small { rng.range(1, 2) } else { rng.range(1, 6) } as u32;
    let ops = if small { rng.range(1, 4) } else { rng.range(1, 12) } as u32;
    let mut variant = rng.below(24) as u32;
    // a share of the cases exercises the single-threaded batch-limit scenarios
    if (wl == "chan" || wl == "exec") && case % 97 == 0 && !miri {
        variant = 1000 + (case / 97 % 12) as u32;
    }
    let plan = sched::draw_plan(&mut rng, &sites, miri);
    let leak_checked = matches!(args.get_str("leg"), Some("asan") | Some("miri") | Some("miri-weakmem") | Some("memcheck"));
    SchedCase { workload: wl.into(), seed: args.seed, case, threads, ops, variant, plan, no_drop_race: leak_checked }
}

fn main() {
    let args = Args::parse();
    install_panic_hook();
    let t0 = Instant::now();
    let mut res = RunResult::new(&args, "sched");
    let prop = args.prop.clone();
    let miri = cfg!(miri);

    if let Some(path) = &args.replay {
        let v: serde_json::Value = serde_json::from_str(&std::fs::read_to_string(path).expect("replay file")).expect("json");
        let c: SchedCase = serde_json::from_value(v["replay"]["case"].clone()).expect("case");
        // schedules are not deterministic: repeat the case with its delay plan
        let reps = args.get_u64("reps", 20);
        let mut hit = 0;
        for i in 0..reps {
            let o = sched::run_case(&c);
            for a in &o.alarms {
                if i == 0 || hit == 0 {
                    println!("run {}: {} / {} :: {}", i, a.clause, a.culprit, a.detail);
                }
                res.violations.push(Violation { prop: prop.clone(), clause: a.clause.clone(), culprit: a.culprit.clone(), detail: a.detail.clone(), replay: v["replay"].clone() });
            }
            if !o.alarms.is_empty() {
                hit += 1;
                if hit == 1 {
                    for l in &o.dump {
                        println!("{}", l);
                    }
                }
            }
        }
        println!("{} of {} repetitions of the case raised an alarm", hit, reps);
        res.evaluations = reps;
        res.write(&args.out);
        return;
    }

    let total = args.get_u64("cases", if args.thorough() { 120_000 } else { 4_000 });
    let per = (total / args.nshards).max(1);
    let budget_s = args.get_u64("budget", if args.thorough() { 1500 } else { 90 });
    let mut seen: std::collections::BTreeSet<String> = Default::default();
    for i in 0..per {
        if t0.elapsed().as_secs() > budget_s {
            res.notes.push(format!("time budget reached after {} of {} cases in shard {}", i, per, args.shard));
            break;
        }
        let case = args.shard * per + i;
        let c = make_case(&args, case, miri);
        mark_case(&args.out, case, &c.workload);
        let o = sched::run_case(&c);
        res.evaluations += 1;
        for (k, v) in &o.events {
            *res.events.entry(k.clone()).or_insert(0) += v;
        }
        for (k, v) in &o.cov {
            *res.coverage.entry(k.clone()).or_insert(0) += v;
        }
        for m in &o.inconclusive {
            if res.inconclusive.len() < 6 {
                res.inconclusive.push(format!("case {}: {}", case, m));
            }
            res.cov("inconclusive_executions", 1);
        }
        if o.nontrivial {
            res.nontrivial += 1;
            res.classes.insert(o.class);
        }
        if res.samples.len() < 2 && o.nontrivial && o.alarms.is_empty() {
            res.samples.push(json!({"case": c, "events": o.events, "interleaving_classes": o.cov}));
        }
        if args.get_str("weakmem").is_some() {
            // pass B of the Miri leg (weak-memory emulation on): only UB / data-race reports of the interpreter
            // are verdicts; behavioural deviations cannot be reproduced on this host and are only logged
            for a in &o.alarms {
                res.inconclusive.push(format!("case {} under weak-memory emulation: {}/{}: {}", case, a.clause, a.culprit, a.detail));
            }
            continue;
        }
        for a in &o.alarms {
            let sig = format!("{}/{}", a.clause, a.culprit);
            res.cov(&format!("alarm:{}", sig), 1);
            if seen.insert(sig) && res.violations.len() < 12 {
                res.violations.push(Violation {
                    prop: prop.clone(),
                    clause: a.clause.clone(),
                    culprit: a.culprit.clone(),
                    detail: format!("{} [case {}, workload {}, {} threads x {} ops, variant {}]", a.detail, case, c.workload, c.threads, c.ops, c.variant),
                    replay: json!({"engine": "sched", "case": c}),
                });
            }
        }
    }
    res.wall_s = t0.elapsed().as_secs_f64();
    res.write(&args.out);
}
