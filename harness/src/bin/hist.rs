//! History engine driver: generates histories for one property, runs them, shrinks witnesses.

use cverif::hist::gen::{gen_history, profile_for};
use cverif::hist::run::{run_history, RunCfg};
use cverif::hist::spec::History;
use cverif::hist::{own, shrink};
use cverif::*;
use serde_json::json;
use std::time::Instant;

fn cases_for(args: &Args) -> u64 {
    let base: u64 = match (args.prop.as_str(), args.thorough()) {
        ("C02", false) => 12_000,
        ("C02", true) => 150_000,
        ("C05", false) => 8_000,
        ("C05", true) => 120_000,
        (_, false) => 24_000,
        (_, true) => 400_000,
    };
    args.get_u64("cases", base)
}

fn main() {
    let args = Args::parse();
    install_panic_hook();
    let t0 = Instant::now();
    let mut res = RunResult::new(&args, "hist");
    let prop = args.prop.clone();

    if let Some(path) = &args.replay {
        let v: serde_json::Value = serde_json::from_str(&std::fs::read_to_string(path).expect("replay file")).expect("json");
        let h: History = serde_json::from_value(v["replay"]["history"].clone()).expect("history");
        let cfg = RunCfg { prop: prop.clone(), trace: true };
        let o = run_history(&h, &cfg);
        for l in &o.trace {
            println!("{}", l);
        }
        if let Some(f) = &o.harness_fault {
            println!("HARNESS FAULT: {}", f);
        }
        for a in &o.alarms {
            println!("alarm: {} / {} :: {}", a.clause, a.culprit, a.detail);
            if a.clause.starts_with(&prop) {
                res.violations.push(Violation { prop: prop.clone(), clause: a.clause[prop.len() + 1..].to_string(), culprit: a.culprit.clone(), detail: a.detail.clone(), replay: v["replay"].clone() });
            }
        }
        if own(&o, &prop).is_none() {
            println!("no alarm of {} on this tree", prop);
        }
        res.evaluations = 1;
        res.write(&args.out);
        return;
    }

    let total = cases_for(&args);
    let per = total / args.nshards;
    let budget_s = args.get_u64("budget", if args.thorough() { 1500 } else { 100 });
    let cfg = RunCfg { prop: prop.clone(), trace: false };
    let mut seen: std::collections::BTreeSet<String> = Default::default();
    let mut samples = 0;
    // C13: bounded-exhaustive family of short idle histories, on top of the random ones
    let enum_len = if prop == "C13" && args.get_str("only").is_none() { args.get_u64("enumlen", if args.thorough() { 6 } else { 5 }) as usize } else { 0 };
    let mut enum_total = 0u64;
    for l in 1..=enum_len {
        let n = cverif::hist::gen::C13_SYMBOLS.pow(l as u32);
        for idx in 0..n {
            if (idx + l as u64) % args.nshards != args.shard {
                continue;
            }
            let h = cverif::hist::gen::c13_enumerated(idx, l);
            let o = run_history(&h, &cfg);
            res.evaluations += 1;
            enum_total += 1;
            for (k, v) in &o.ev {
                *res.events.entry(k.clone()).or_insert(0) += v;
            }
            if o.ev.get("idle_ran").copied().unwrap_or(0) > 0 {
                res.nontrivial += 1;
                res.classes.insert(fnv(&[0xC13, l as u64, idx]));
            }
            if let Some(f) = &o.harness_fault {
                if res.inconclusive.len() < 5 {
                    res.inconclusive.push(format!("enumerated C13 history {} of length {}: {}", idx, l, f));
                }
                continue;
            }
            if let Some(a) = own(&o, &prop) {
                let sig = format!("{}/{}", a.clause, a.culprit);
                res.cov(&format!("alarm:{}", sig), 1);
                if seen.insert(sig) && res.violations.len() < 12 {
                    res.violations.push(Violation {
                        prop: prop.clone(),
                        clause: a.clause[prop.len() + 1..].to_string(),
                        culprit: a.culprit.clone(),
                        detail: format!("{} [enumerated idle history {} of length {}]", a.detail, idx, l),
                        replay: json!({"engine": "hist", "enumerated": [idx, l], "history": h}),
                    });
                }
            }
        }
    }
    if enum_len > 0 {
        res.cov("enumerated_idle_histories", enum_total);
        res.notes.push(format!("C13: every sequence of 1..{} symbols of the 10-symbol idle alphabet was executed (exhaustive for that family)", enum_len));
    }
    let only = args.get_str("only").and_then(|s| s.parse::<u64>().ok());
    for i in 0..per {
        if let Some(o) = only {
            if args.shard * per + i != o {
                continue;
            }
        }
        if t0.elapsed().as_secs() > budget_s {
            res.notes.push(format!("time budget reached after {} of {} cases in shard {}", i, per, args.shard));
            break;
        }
        let case = args.shard * per + i;
        let mut rng = Rng::derive(args.seed, case, fnv_str(&prop));
        let variant = rng.below(12);
        let p = profile_for(args.get_str("profile").unwrap_or(&prop), variant, args.thorough());
        let h = gen_history(&mut rng, &p);
        if i % 64 == 0 {
            mark_case(&args.out, case, "hist");
        }
        if only.is_some() {
            println!("{}", serde_json::to_string(&h).unwrap());
        }
        let o = run_history(&h, &RunCfg { prop: prop.clone(), trace: only.is_some() });
        if only.is_some() {
            for l in &o.trace {
                println!("{}", l);
            }
        }
        res.evaluations += 1;
        for (k, v) in &o.ev {
            *res.events.entry(k.clone()).or_insert(0) += v;
        }
        if let Some(f) = &o.harness_fault {
            if res.inconclusive.len() < 5 {
                res.inconclusive.push(format!("case {}: {}", case, f));
            }
            res.cov("harness_fault", 1);
            continue;
        }
        let nontrivial = o.ev.get("cb").copied().unwrap_or(0) > 0 && (o.ev.get("in_callback_op").copied().unwrap_or(0) > 0 || o.ev.get("dispatch").copied().unwrap_or(0) > 2);
        if nontrivial {
            res.nontrivial += 1;
            res.classes.insert(o.class);
        }
        if samples < 2 && nontrivial && (h.steps.len() <= 16 || i >= 40) && o.alarms.is_empty() {
            samples += 1;
            res.samples.push(json!({"case": case, "history": h}));
        }
        for a in &o.alarms {
            let is_own = a.clause.starts_with(&prop) && a.clause.as_bytes().get(prop.len()) == Some(&b'.');
            if !is_own {
                *res.foreign_alarms.entry(a.clause.clone()).or_insert(0) += 1;
            }
        }
        if let Some(a) = own(&o, &prop) {
            let sig = format!("{}/{}", a.clause, a.culprit);
            res.cov(&format!("alarm:{}", sig), 1);
            if seen.insert(sig) && res.violations.len() < 12 {
                let clause = a.clause.clone();
                let small = shrink(&h, &cfg, &clause, 250);
                // the shrunk history decides the culprit
                let o2 = run_history(&small, &cfg);
                let a2 = o2.alarms.iter().find(|x| x.clause == clause).cloned().unwrap_or_else(|| a.clone());
                let (hh, aa) = if o2.alarms.iter().any(|x| x.clause == clause) { (small, a2) } else { (h.clone(), a.clone()) };
                seen.insert(format!("{}/{}", aa.clause, aa.culprit));
                res.violations.push(Violation {
                    prop: prop.clone(),
                    clause: aa.clause[prop.len() + 1..].to_string(),
                    culprit: aa.culprit.clone(),
                    detail: format!("{} [case {}, {} steps after shrinking]", aa.detail, case, hh.steps.len()),
                    replay: json!({"engine": "hist", "case": case, "history": hh}),
                });
            }
        }
    }
    res.wall_s = t0.elapsed().as_secs_f64();
    res.write(&args.out);
}
