//! C19: signal-mask bookkeeping is exact; each pending signal is reported once.
//!
//! This process is single-threaded (process-directed signals must not find another thread).
//! Counting handlers are installed for every signal of the alphabet, so a signal that gets
//! unblocked is observed instead of killing the run. Each history starts from and must return
//! to the pristine state (nothing blocked, nothing pending).

use calloop::signals::{Signal, Signals};
use calloop::{Dispatcher, EventLoop};
use cverif::*;
use serde::{Deserialize, Serialize};
use serde_json::json;
use std::sync::atomic::{AtomicU32, Ordering};
use std::time::{Duration, Instant};

/// every catchable signal a history may use (not SIGCONT: generating it discards pending stop signals; not
/// SIGTTOU: the application's own; not the synchronous ones). A history works on a window of six of them.
const POOL: [(Signal, i32); 16] = [
    (Signal::SIGUSR1, libc::SIGUSR1),
    (Signal::SIGUSR2, libc::SIGUSR2),
    (Signal::SIGWINCH, libc::SIGWINCH),
    (Signal::SIGURG, libc::SIGURG),
    (Signal::SIGCHLD, libc::SIGCHLD),
    (Signal::SIGHUP, libc::SIGHUP),
    (Signal::SIGTSTP, libc::SIGTSTP),
    (Signal::SIGTTIN, libc::SIGTTIN),
    (Signal::SIGALRM, libc::SIGALRM),
    (Signal::SIGVTALRM, libc::SIGVTALRM),
    (Signal::SIGPROF, libc::SIGPROF),
    (Signal::SIGIO, libc::SIGIO),
    (Signal::SIGPIPE, libc::SIGPIPE),
    (Signal::SIGTERM, libc::SIGTERM),
    (Signal::SIGINT, libc::SIGINT),
    (Signal::SIGQUIT, libc::SIGQUIT),
];

static BASE: std::sync::atomic::AtomicUsize = std::sync::atomic::AtomicUsize::new(0);

/// the six signals of the current history (window `base` of the pool; base 0 = USR1 USR2 WINCH URG CHLD HUP)
fn sigs() -> [(Signal, i32); 6] {
    let b = BASE.load(Ordering::SeqCst);
    std::array::from_fn(|i| POOL[(b + i) % POOL.len()])
}

static COUNTS: [AtomicU32; 65] = [const { AtomicU32::new(0) }; 65];

extern "C" fn on_sig(sig: libc::c_int) {
    if (sig as usize) < 65 {
        COUNTS[sig as usize].fetch_add(1, Ordering::SeqCst);
    }
}

fn install_handlers() {
    for (_, n) in POOL {
        unsafe {
            let mut sa: libc::sigaction = std::mem::zeroed();
            sa.sa_sigaction = on_sig as *const () as usize;
            sa.sa_flags = libc::SA_RESTART;
            libc::sigemptyset(&mut sa.sa_mask);
            libc::sigaction(n, &sa, std::ptr::null_mut());
        }
    }
}

fn blocked_mask() -> u8 {
    let mut m = 0u8;
    unsafe {
        let mut cur: libc::sigset_t = std::mem::zeroed();
        libc::pthread_sigmask(libc::SIG_BLOCK, std::ptr::null(), &mut cur);
        for (i, (_, n)) in sigs().iter().enumerate() {
            if libc::sigismember(&cur, *n) == 1 {
                m |= 1 << i;
            }
        }
    }
    m
}

fn pending_mask() -> u8 {
    let mut m = 0u8;
    unsafe {
        let mut cur: libc::sigset_t = std::mem::zeroed();
        libc::sigpending(&mut cur);
        for (i, (_, n)) in sigs().iter().enumerate() {
            if libc::sigismember(&cur, *n) == 1 {
                m |= 1 << i;
            }
        }
    }
    m
}

/// a signal the application itself keeps blocked and that is never given to the source
const APP_SIG: i32 = libc::SIGTTOU;

fn app_block(on: bool) {
    unsafe {
        let mut set: libc::sigset_t = std::mem::zeroed();
        libc::sigemptyset(&mut set);
        libc::sigaddset(&mut set, APP_SIG);
        libc::pthread_sigmask(if on { libc::SIG_BLOCK } else { libc::SIG_UNBLOCK }, &set, std::ptr::null_mut());
    }
}

fn app_blocked() -> bool {
    unsafe {
        let mut cur: libc::sigset_t = std::mem::zeroed();
        libc::pthread_sigmask(libc::SIG_BLOCK, std::ptr::null(), &mut cur);
        libc::sigismember(&cur, APP_SIG) == 1
    }
}

fn unblock_all() {
    unsafe {
        let mut set: libc::sigset_t = std::mem::zeroed();
        libc::sigemptyset(&mut set);
        for (_, n) in POOL {
            libc::sigaddset(&mut set, n);
        }
        libc::pthread_sigmask(libc::SIG_UNBLOCK, &set, std::ptr::null_mut());
    }
}

fn sigs_of(mask: u8) -> Vec<Signal> {
    sigs().iter().enumerate().filter(|(i, _)| mask & (1 << i) != 0).map(|(_, s)| s.0).collect()
}

#[derive(Clone, Copy, Debug, PartialEq, Eq, Serialize, Deserialize)]
enum SOp {
    New(u8),
    Add(u8),
    Remove(u8),
    Set(u8),
    Raise(u8, u8),
    Dispatch,
    Drop,
}

#[derive(Clone, Debug, Default)]
struct Alarm {
    clause: String,
    culprit: String,
    detail: String,
}

struct Outcome {
    alarms: Vec<Alarm>,
    reported: u64,
    class: u64,
    mask_changes_with_pending: u64,
}

fn run_history(ops: &[SOp], nsig: usize, with_app: bool) -> Outcome {
    let mut out = Outcome { alarms: vec![], reported: 0, class: 0, mask_changes_with_pending: 0 };
    // every other history runs with a signal blocked by the application itself: the source must leave it alone
    app_block(with_app);
    for c in COUNTS.iter() {
        c.store(0, Ordering::SeqCst);
    }
    let all_mask: u8 = ((1u16 << nsig) - 1) as u8;
    let mut el: EventLoop<Vec<(i32, u32, u32)>> = EventLoop::try_new().expect("loop");
    let h = el.handle();
    let mut src: Option<(Dispatcher<'static, Signals, Vec<(i32, u32, u32)>>, calloop::RegistrationToken)> = None;
    // model
    let mut configured: u8 = 0;
    let mut pending: u8 = 0; // configured, raised, not reported yet
    let mut pending_t: u8 = 0; // the same for thread-directed instances
    let mut handler_min = [0u32; 6];
    let mut handler_max = [0u32; 6];
    let pid = unsafe { libc::getpid() } as u32;
    let uid = unsafe { libc::getuid() } as u32;
    let mut class_parts: Vec<u64> = vec![];
    let alarm = |out: &mut Outcome, c: &str, k: &str, d: String| {
        if out.alarms.len() < 8 {
            out.alarms.push(Alarm { clause: c.into(), culprit: k.into(), detail: d });
        }
    };
    for (step, op) in ops.iter().enumerate() {
        if !out.alarms.is_empty() {
            break;
        }
        let before_cfg = configured;
        let before_pending = pending | pending_t;
        let before_pending_t = pending_t;
        let before_pending_p = pending;
        let mut desc = format!("{:?}", op);
        match *op {
            SOp::New(m) => {
                if src.is_some() {
                    continue;
                }
                let m = m & all_mask;
                let s = match Signals::new(&sigs_of(m)) {
                    Ok(s) => s,
                    Err(e) => {
                        alarm(&mut out, "api_ok", "new-failed", format!("Signals::new failed: {}", e));
                        break;
                    }
                };
                let d = Dispatcher::new(s, |ev: calloop::signals::Event, _: &mut (), acc: &mut Vec<(i32, u32, u32)>| {
                    acc.push((ev.signal() as i32, ev.pid(), ev.uid()));
                });
                let t = h.register_dispatcher(d.clone()).expect("register");
                src = Some((d, t));
                configured = m;
            }
            SOp::Add(m) => {
                let Some((d, _)) = &src else { continue };
                let m = m & all_mask;
                if let Err(e) = d.as_source_mut().add_signals(&sigs_of(m)) {
                    alarm(&mut out, "api_ok", "add-failed", format!("add_signals failed: {}", e));
                }
                configured |= m;
            }
            SOp::Remove(m) => {
                let Some((d, _)) = &src else { continue };
                let m = m & all_mask;
                if let Err(e) = d.as_source_mut().remove_signals(&sigs_of(m)) {
                    alarm(&mut out, "api_ok", "remove-failed", format!("remove_signals failed: {}", e));
                }
                configured &= !m;
            }
            SOp::Set(m) => {
                let Some((d, _)) = &src else { continue };
                let m = m & all_mask;
                if let Err(e) = d.as_source_mut().set_signals(&sigs_of(m)) {
                    alarm(&mut out, "api_ok", "set-failed", format!("set_signals failed: {}", e));
                }
                configured = m;
            }
            SOp::Raise(i, n) => {
                let i = i as usize % nsig;
                let n = (n % 3) + 1;
                desc = format!("Raise({:?} x{})", sigs()[i].0, n);
                // one instance: process-directed; two or three: also a thread-directed one (raise), which is queued
                // separately from the process-directed instance(s) and must be reported as well
                for k in 0..n {
                    unsafe {
                        if k == 1 {
                            libc::raise(sigs()[i].1);
                        } else {
                            libc::kill(libc::getpid(), sigs()[i].1);
                        }
                    }
                }
                if configured & (1 << i) != 0 {
                    pending |= 1 << i;
                    if n >= 2 {
                        pending_t |= 1 << i;
                    }
                } else {
                    handler_min[i] += n as u32;
                    handler_max[i] += n as u32;
                }
            }
            SOp::Dispatch => {
                let mut acc = Vec::new();
                let r = el.dispatch(Some(Duration::ZERO), &mut acc);
                if let Err(e) = r {
                    alarm(&mut out, "api_ok", "dispatch-failed", format!("dispatch failed: {}", e));
                }
                let mut seen: u8 = 0;
                let mut twice: u8 = 0;
                for (signo, p, u) in &acc {
                    out.reported += 1;
                    let idx = sigs().iter().position(|s| s.1 == *signo);
                    match idx {
                        None => alarm(&mut out, "reported_once", "unknown-signal-reported", format!("signal {} reported", signo)),
                        Some(i) => {
                            if seen & (1 << i) != 0 {
                                // a second report is right when a thread-directed and a process-directed instance were pending
                                if twice & (1 << i) != 0 || pending_t & pending & (1 << i) == 0 {
                                    alarm(&mut out, "reported_once", "signal-reported-twice", format!("{:?} reported more often in one dispatch than instances were pending", sigs()[i].0));
                                }
                                twice |= 1 << i;
                            }
                            seen |= 1 << i;
                            if configured & (1 << i) == 0 {
                                alarm(&mut out, "unconfigured_untouched", "unconfigured-signal-reported", format!("{:?} is not configured but was reported", sigs()[i].0));
                            } else if pending & (1 << i) == 0 {
                                alarm(&mut out, "reported_once", "signal-reported-without-being-raised", format!("{:?} reported although no instance was pending", sigs()[i].0));
                            }
                            if *p != pid || *u != uid {
                                alarm(&mut out, "reported_once", "wrong-sender-info", format!("{:?} reported with pid {} uid {} (expected {} {})", sigs()[i].0, p, u, pid, uid));
                            }
                        }
                    }
                }
                let missed = (pending | pending_t) & configured & !seen;
                if missed != 0 && src.is_some() {
                    alarm(&mut out, "reported_once", "pending-configured-signal-not-reported", format!("{:?} pending and configured but not reported by the dispatch", sigs_of(missed)));
                }
                let missed_second = pending & pending_t & configured & seen & !twice;
                if missed_second != 0 && src.is_some() {
                    alarm(&mut out, "reported_once", "second-pending-instance-not-reported", format!("{:?}: a thread-directed and a process-directed instance were pending, one report came", sigs_of(missed_second)));
                }
                pending &= !seen;
                pending &= configured;
                pending_t &= !seen;
                pending_t &= configured;
            }
            SOp::Drop => {
                if let Some((d, t)) = src.take() {
                    h.remove(t);
                    drop(d);
                    configured = 0;
                }
            }
        }
        // a mask change: pending instances of signals that are no longer configured go to the handler (or are dropped)
        let deconf = before_cfg & !configured;
        if deconf != 0 || (before_cfg != configured && before_pending != 0) {
            if before_pending != 0 {
                out.mask_changes_with_pending += 1;
            }
            for i in 0..nsig {
                if deconf & before_pending_p & (1 << i) != 0 {
                    handler_max[i] += 1;
                    pending &= !(1 << i);
                }
                if deconf & before_pending_t & (1 << i) != 0 {
                    handler_max[i] += 1;
                    pending_t &= !(1 << i);
                }
            }
        }
        // ---- checks after every call
        let blocked = blocked_mask();
        if blocked != configured {
            let extra = blocked & !configured;
            let missing = configured & !blocked;
            let c = if extra != 0 { "signal-left-blocked" } else { "configured-signal-not-blocked" };
            alarm(&mut out, "mask_exact", c, format!("after {}: blocked {:?}, configured {:?}", desc, sigs_of(blocked), sigs_of(configured)));
            let _ = missing;
        }
        if with_app && !app_blocked() {
            alarm(&mut out, "mask_exact", "application-blocked-signal-unblocked", format!("after {}: a signal the application had blocked itself (never configured in the source) is no longer blocked", desc));
        }
        for i in 0..nsig {
            let got = COUNTS[sigs()[i].1 as usize].load(Ordering::SeqCst);
            if got > handler_max[i] {
                let still = configured & (1 << i) != 0 && before_cfg & (1 << i) != 0;
                let (cl, cu) = if still { ("handler_never_for_configured", "configured-signal-delivered-to-handler") } else { ("unconfigured_untouched", "handler-ran-too-often") };
                alarm(&mut out, cl, cu, format!("after {}: the process handler of {:?} ran {} times, at most {} expected (configured before {}, after {})", desc, sigs()[i].0, got, handler_max[i], before_cfg & (1 << i) != 0, configured & (1 << i) != 0));
            } else if got < handler_min[i] {
                alarm(&mut out, "unconfigured_untouched", "unconfigured-signal-swallowed", format!("after {}: the process handler of {:?} ran {} times, at least {} expected", desc, sigs()[i].0, got, handler_min[i]));
            }
            // follow the observation inside the allowed range
            handler_min[i] = handler_min[i].max(got.min(handler_max[i]));
        }
        // a configured pending signal must still be pending for the thread (it was not consumed by anybody else)
        let kp = pending_mask();
        let lost = pending & configured & !kp;
        if lost != 0 && !matches!(op, SOp::Dispatch) {
            alarm(&mut out, "reported_once", "pending-signal-vanished", format!("after {}: {:?} were raised while configured but are no longer pending", desc, sigs_of(lost)));
        }
        class_parts.push(match op {
            SOp::New(_) => 1,
            SOp::Add(_) => 2,
            SOp::Remove(_) => 3,
            SOp::Set(_) => 4,
            SOp::Raise(..) => 5,
            SOp::Dispatch => 6,
            SOp::Drop => 7,
        } + 10 * (before_pending != 0) as u64 + 100 * (configured.count_ones() as u64).min(3));
        let _ = step;
    }
    // end: the source goes away, everything must be unblocked
    if let Some((d, t)) = src.take() {
        h.remove(t);
        drop(d);
    }
    drop(el);
    let blocked = blocked_mask();
    if blocked != 0 && out.alarms.is_empty() {
        alarm(&mut out, "drop_unblocks", "signal-left-blocked-after-drop", format!("{:?} still blocked after the source was dropped", sigs_of(blocked)));
    }
    // back to the pristine state for the next history
    unblock_all();
    app_block(false);
    out.class = fnv(&class_parts);
    out
}

fn gen_history(rng: &mut Rng, nsig: usize, len: usize) -> Vec<SOp> {
    let mut v = vec![];
    let m = |rng: &mut Rng| rng.below(1 << nsig) as u8;
    v.push(SOp::New(m(rng)));
    for _ in 0..len {
        v.push(match rng.below(12) {
            0 => SOp::Add(m(rng)),
            1 => SOp::Remove(m(rng)),
            2 | 3 => SOp::Set(m(rng)),
            4..=7 => SOp::Raise(rng.below(nsig as u64) as u8, rng.below(3) as u8),
            8 | 9 => SOp::Dispatch,
            10 => SOp::Drop,
            _ => SOp::New(m(rng)),
        });
    }
    v.push(SOp::Dispatch);
    v
}

fn shrink(ops: &[SOp], nsig: usize, with_app: bool, clause: &str) -> Vec<SOp> {
    let mut cur = ops.to_vec();
    let mut i = 0;
    while i < cur.len() {
        let mut cand = cur.clone();
        cand.remove(i);
        let o = run_history(&cand, nsig, with_app);
        if o.alarms.iter().any(|a| a.clause == clause) {
            cur = cand;
        } else {
            i += 1;
        }
    }
    cur
}

fn main() {
    let args = Args::parse();
    install_panic_hook();
    let t0 = Instant::now();
    let mut res = RunResult::new(&args, "sig");
    install_handlers();
    unblock_all();

    if let Some(path) = &args.replay {
        let v: serde_json::Value = serde_json::from_str(&std::fs::read_to_string(path).expect("replay file")).expect("json");
        let ops: Vec<SOp> = serde_json::from_value(v["replay"]["ops"].clone()).expect("ops");
        let nsig = v["replay"]["nsig"].as_u64().unwrap_or(6) as usize;
        let with_app = v["replay"]["app_blocked_signal"].as_bool().unwrap_or(false);
        BASE.store(v["replay"]["window"].as_u64().unwrap_or(0) as usize, Ordering::SeqCst);
        println!("replaying {:?} (application-blocked signal: {})", ops, with_app);
        let o = run_history(&ops, nsig, with_app);
        for a in &o.alarms {
            println!("alarm: {} / {} :: {}", a.clause, a.culprit, a.detail);
            res.violations.push(Violation { prop: args.prop.clone(), clause: a.clause.clone(), culprit: a.culprit.clone(), detail: a.detail.clone(), replay: v["replay"].clone() });
        }
        if o.alarms.is_empty() {
            println!("no alarm on this tree");
        }
        res.evaluations = 1;
        res.write(&args.out);
        return;
    }

    let total = args.get_u64("cases", if args.thorough() { 1_600_000 } else { 80_000 });
    let per = total / args.nshards;
    let mut seen = std::collections::BTreeSet::new();
    for i in 0..per {
        let case = args.shard * per + i;
        let mut rng = Rng::derive(args.seed, case, 19);
        let (nsig, len) = if case % 3 == 0 { (3, rng.range(1, 5) as usize) } else { (6, rng.range(2, 12) as usize) };
        let ops = gen_history(&mut rng, nsig, len);
        // two histories in three work on USR1 USR2 WINCH URG CHLD HUP, the third on another window of the pool
        let window = if case % 3 == 2 { (case / 3) as usize % POOL.len() } else { 0 };
        BASE.store(window, Ordering::SeqCst);
        res.cov(&format!("window-starts-at:{:?}", POOL[window].0), 1);
        if i % 256 == 0 {
            mark_case(&args.out, case, "sig");
        }
        let with_app = case % 2 == 1;
        let o = run_history(&ops, nsig, with_app);
        res.evaluations += 1;
        res.ev("signals_reported", o.reported);
        res.ev("mask_changes_with_pending_signals", o.mask_changes_with_pending);
        if o.reported > 0 || o.mask_changes_with_pending > 0 {
            res.nontrivial += 1;
            res.classes.insert(o.class);
        }
        if res.samples.len() < 2 && o.reported > 0 && o.alarms.is_empty() {
            res.samples.push(json!({"case": case, "nsig": nsig, "window": window, "ops": ops, "signals_reported": o.reported}));
        }
        if let Some(a) = o.alarms.first() {
            let sig = format!("{}/{}", a.clause, a.culprit);
            res.cov(&format!("alarm:{}", sig), 1);
            if seen.insert(sig) && res.violations.len() < 10 {
                let small = shrink(&ops, nsig, with_app, &a.clause);
                let o2 = run_history(&small, nsig, with_app);
                let a2 = o2.alarms.iter().find(|x| x.clause == a.clause).cloned().unwrap_or_else(|| a.clone());
                seen.insert(format!("{}/{}", a2.clause, a2.culprit));
                res.violations.push(Violation {
                    prop: args.prop.clone(),
                    clause: a2.clause.clone(),
                    culprit: a2.culprit.clone(),
                    detail: format!("{} [case {}, signals {:?}, history {:?}]", a2.detail, case, sigs().iter().take(nsig).map(|s| s.0).collect::<Vec<_>>(), small),
                    replay: json!({"engine": "sig", "nsig": nsig, "ops": small, "app_blocked_signal": with_app, "window": window}),
                });
            }
        }
    }
    res.wall_s = t0.elapsed().as_secs_f64();
    res.write(&args.out);
}
