//! C20: poller keys encode (slot, generation, sub-source) injectively and reversibly.
//!
//! Round trip through calloop's own conversion code (hook 3) for complete
//! (version, sub-id) planes of chosen slot ids, seeded random triples, version bump /
//! forget-sub-id algebra, token factories driven until they fail, and a cross-check of
//! the key the kernel actually holds for a registered fd.

use calloop::generic::Generic;
use calloop::verif::{bump_version, forget_sub_id, pack, same_source, token_factory, unpack};
use calloop::{EventLoop, Interest, Mode, PostAction};
use cverif::*;
use serde_json::json;
use std::os::fd::AsRawFd;

const NOTIFY_KEY: usize = usize::MAX;

fn ids_for(args: &Args) -> Vec<u32> {
    let mut ids: Vec<u32> = vec![0, 1, 1 << 16, u32::MAX - 1];
    if args.thorough() {
        for k in 1..32u32 {
            ids.push(1u32 << k);
            ids.push((1u32 << k) - 1);
            ids.push((1u32 << k).wrapping_add(1));
        }
        let mut rng = Rng::derive(args.seed, 20, 0);
        while ids.len() < 110 {
            ids.push(rng.below(u32::MAX as u64) as u32);
        }
        ids.sort_unstable();
        ids.dedup();
        ids.truncate(48.max(ids.len().min(args.get_u64("ids", 48) as usize)));
    }
    ids.sort_unstable();
    ids.dedup();
    ids
}

fn viol(args: &Args, clause: &str, culprit: &str, detail: String, replay: serde_json::Value) -> Violation {
    Violation {
        prop: args.prop.clone(),
        clause: clause.into(),
        culprit: culprit.into(),
        detail,
        replay,
    }
}

fn check_triple(args: &Args, id: u32, v: u16, s: u16, res: &mut RunResult) -> bool {
    let key = std::hint::black_box(pack(std::hint::black_box(id), std::hint::black_box(v), std::hint::black_box(s)));
    let back = unpack(key);
    let mut ok = true;
    if back != (id, v, s) {
        res.violations.push(viol(
            args,
            "roundtrip",
            "decode-differs",
            format!("pack({},{},{}) = {:#x} decodes to {:?}", id, v, s, key, back),
            json!({"engine":"tok","id":id,"version":v,"sub_id":s}),
        ));
        ok = false;
    }
    if key == NOTIFY_KEY && id < u32::MAX {
        res.violations.push(viol(
            args,
            "reserved_key",
            "equals-notify-key",
            format!("pack({},{},{}) equals the poller's reserved key", id, v, s),
            json!({"engine":"tok","id":id,"version":v,"sub_id":s}),
        ));
        ok = false;
    }
    ok
}

fn plane(args: &Args, id: u32, v_lo: u32, v_hi: u32, res: &mut RunResult) {
    // complete (version, sub-id) plane for this id, versions v_lo..v_hi
    let mut nontrivial = 0u64;
    let mut bad = 0u32;
    // injectivity inside a plane is implied by the exact round trip; injectivity across
    // ids likewise (the decoded id must equal the encoded one)
    for v in v_lo..v_hi {
        let v = v as u16;
        // algebra on the version row
        let k0 = pack(id, v, 0);
        let bumped = unpack(bump_version(pack(id, v, 7)));
        if bumped != (id, v.wrapping_add(1), 0) {
            res.violations.push(viol(
                args,
                "version_bump",
                "wrong-successor",
                format!("bump_version of ({},{},7) gives {:?}", id, v, bumped),
                json!({"engine":"tok","id":id,"version":v,"sub_id":7}),
            ));
            bad += 1;
        }
        for s in 0..=u16::MAX {
            // black_box: the conversion must really be executed, not folded away by the optimiser
            let key = std::hint::black_box(pack(std::hint::black_box(id), std::hint::black_box(v), std::hint::black_box(s)));
            let back = unpack(key);
            if back != (id, v, s) || (key == NOTIFY_KEY && id < u32::MAX) {
                if bad < 5 {
                    check_triple(args, id, v, s, res);
                }
                bad += 1;
            }
            // sub-source keys of one registration: same source, forget gives the base key
            if s & 0x3ff == 0x155 {
                if forget_sub_id(key) != k0 || !same_source(key, k0) {
                    if bad < 5 {
                        res.violations.push(viol(
                            args,
                            "forget_sub_id",
                            "base-key-differs",
                            format!("forget_sub_id({:#x}) = {:#x}, base {:#x}", key, forget_sub_id(key), k0),
                            json!({"engine":"tok","id":id,"version":v,"sub_id":s}),
                        ));
                    }
                    bad += 1;
                }
            }
            if (id != 0) as u8 + (v != 0) as u8 + (s != 0) as u8 >= 2 {
                nontrivial += 1;
            }
        }
        if bad > 50 {
            break;
        }
    }
    res.evaluations += (v_hi - v_lo) as u64 * 65536;
    res.nontrivial += nontrivial;
    res.ev("triples_enumerated", (v_hi - v_lo) as u64 * 65536);
}

fn random_triples(args: &Args, n: u64, res: &mut RunResult) {
    let mut rng = Rng::derive(args.seed, 2020, args.shard);
    let mut nontrivial = 0;
    for i in 0..n {
        let mut id = rng.next() as u32;
        if id == u32::MAX {
            id -= 1;
        }
        // bias a share of the draws to boundary values
        let (v, s) = match i & 7 {
            0 => (u16::MAX, u16::MAX),
            1 => (0, u16::MAX),
            2 => (u16::MAX, 0),
            _ => (rng.next() as u16, rng.next() as u16),
        };
        if !check_triple(args, id, v, s, res) && res.violations.len() > 20 {
            break;
        }
        // field isolation: changing one field changes the key, and only that field of the decoding
        let k = pack(id, v, s);
        let k2 = pack(id, v, s.wrapping_add(1));
        let k3 = pack(id, v.wrapping_add(1), s);
        let k4 = pack(id ^ 1, v, s);
        if k == k2 || k == k3 || k == k4 || k2 == k3 {
            res.violations.push(viol(
                args,
                "injective",
                "neighbour-collision",
                format!("keys of neighbours of ({},{},{}) collide: {:#x} {:#x} {:#x} {:#x}", id, v, s, k, k2, k3, k4),
                json!({"engine":"tok","id":id,"version":v,"sub_id":s}),
            ));
        }
        // same_source: true exactly for equal (slot, generation), whatever the sub ids
        let other_sub = pack(id, v, s ^ 0x5a5a);
        if !same_source(k, other_sub) || same_source(k, k3) || same_source(k, k4) || forget_sub_id(k) != forget_sub_id(other_sub) || forget_sub_id(k) == forget_sub_id(k3) {
            res.violations.push(viol(
                args,
                "same_source",
                "source-identity-wrong",
                format!("same_source/forget_sub_id disagree with (slot, generation) equality around ({},{},{})", id, v, s),
                json!({"engine":"tok","id":id,"version":v,"sub_id":s}),
            ));
        }
        // the generation after 65535 is 0 again, same slot, sub id cleared
        if i & 0xff == 0 {
            let b = unpack(bump_version(pack(id, u16::MAX, s)));
            if b != (id, 0, 0) {
                res.violations.push(viol(args, "version_bump", "wrap-wrong", format!("bump_version of ({},65535,{}) gives {:?}", id, s, b), json!({"engine":"tok","id":id,"version":65535,"sub_id":s})));
            }
        }
        if (id != 0) as u8 + (v != 0) as u8 + (s != 0) as u8 >= 2 {
            nontrivial += 1;
        }
    }
    res.evaluations += n;
    res.nontrivial += nontrivial;
    res.ev("triples_random", n);
}

/// drive a factory until it fails; returns the number of tokens handed out
fn factory_case(args: &Args, id: u32, version: u16, want: u32, res: &mut RunResult) {
    let out = std::panic::catch_unwind(|| {
        let mut f = token_factory(id, version);
        let mut keys: Vec<usize> = Vec::with_capacity(want as usize);
        let mut err: Option<String> = None;
        for n in 0..want {
            let r = std::panic::catch_unwind(std::panic::AssertUnwindSafe(|| f.token()));
            match r {
                Ok(t) => {
                    let k = t.verif_key();
                    let (i, v, s) = unpack(k);
                    if i != id || v != version {
                        err = Some(format!("token #{} of factory ({},{}) belongs to ({},{})", n, id, version, i, v));
                        break;
                    }
                    if s as u32 != n {
                        err = Some(format!("token #{} of factory ({},{}) has sub id {} (wrapped or repeated)", n, id, version, s));
                        break;
                    }
                    keys.push(k);
                }
                Err(_) => {
                    return (keys, err, Some(n));
                }
            }
        }
        (keys, err, None)
    });
    let (keys, err, panicked_at) = out.unwrap_or((vec![], Some("factory driver panicked".into()), None));
    res.evaluations += 1;
    res.ev("factory_tokens", keys.len() as u64);
    let had_err = err.is_some();
    if let Some(e) = err {
        res.violations.push(viol(args, "factory_tokens", "foreign-or-repeated", e, json!({"engine":"tok","factory":[id,version],"want":want})));
    }
    // pairwise distinct
    let mut sorted = keys.clone();
    sorted.sort_unstable();
    sorted.dedup();
    if sorted.len() != keys.len() {
        res.violations.push(viol(
            args,
            "factory_tokens",
            "duplicate-key",
            format!("factory ({},{}) handed out {} tokens, {} distinct", id, version, keys.len(), sorted.len()),
            json!({"engine":"tok","factory":[id,version],"want":want}),
        ));
    }
    match panicked_at {
        Some(n) => {
            res.cov(&format!("factory_failed_at_request_{}", n + 1), 1);
            // failing loudly is what is demanded; it must not happen while plenty of ids remain
            if n + 1 < 65536 {
                res.violations.push(viol(
                    args,
                    "factory_capacity",
                    "fails-early",
                    format!("factory ({},{}) panicked at request {} although sub ids remain", id, version, n + 1),
                    json!({"engine":"tok","factory":[id,version],"want":want}),
                ));
            }
        }
        None => {
            if want > 65536 && !had_err {
                res.violations.push(viol(
                    args,
                    "factory_capacity",
                    "no-loud-failure",
                    format!("factory ({},{}) served {} requests without failing", id, version, want),
                    json!({"engine":"tok","factory":[id,version],"want":want}),
                ));
            }
        }
    }
    if keys.len() >= 2 {
        res.nontrivial += 1;
        res.classes.insert(fnv(&[77, id as u64, version as u64, want as u64]));
    }
}

/// the key the kernel holds for a registered fd is the token's key
fn kernel_cross_check(args: &Args, res: &mut RunResult) {
    let mut el: EventLoop<()> = EventLoop::try_new().expect("loop");
    let h = el.handle();
    let epfd = el.as_raw_fd();
    let mut toks = Vec::new();
    let mut fds = Vec::new();
    let mut rng = Rng::derive(args.seed, 3030, args.shard);
    for round in 0..40 {
        // churn slots so that versions grow
        if !toks.is_empty() && rng.chance(1, 2) {
            let i = rng.below(toks.len() as u64) as usize;
            let (t, _fd): (calloop::RegistrationToken, i32) = toks.remove(i);
            h.remove(t);
        }
        let fd = sysx::eventfd_new();
        let raw = fd.as_raw_fd();
        let t = h
            .insert_source(Generic::new(fd, Interest::READ, Mode::Level), |_, _, _| Ok(PostAction::Continue))
            .expect("insert");
        toks.push((t, raw));
        fds.push(raw);
        let table = sysx::epoll_table(epfd);
        for (t, raw) in &toks {
            let want = t.verif_key() as u64;
            match table.iter().find(|e| e.tfd == *raw) {
                Some(e) => {
                    if e.data != want || e.data == u64::MAX {
                        res.violations.push(viol(
                            args,
                            "kernel_key",
                            "epoll-data-differs",
                            format!("fd {} registered with data {:#x}, token key {:#x}", raw, e.data, want),
                            json!({"engine":"tok","kernel_round":round}),
                        ));
                    }
                    let (id, v, s) = unpack(e.data as usize);
                    res.classes.insert(fnv(&[88, id as u64, v as u64, s as u64]));
                }
                None => res.inconclusive.push(format!("fd {} not found in the epoll table", raw)),
            }
        }
        // keys of live registrations are pairwise distinct
        let mut datas: Vec<u64> = table.iter().filter(|e| e.data != u64::MAX).map(|e| e.data).collect();
        let n = datas.len();
        datas.sort_unstable();
        datas.dedup();
        if datas.len() != n {
            res.violations.push(viol(args, "kernel_key", "duplicate-live-key", format!("epoll table holds duplicate keys: {:?}", table), json!({"engine":"tok","kernel_round":round})));
        }
        res.evaluations += 1;
        res.nontrivial += 1;
    }
    el.dispatch(std::time::Duration::ZERO, &mut ()).ok();
    res.ev("kernel_rounds", 40);
}

/// A user-written source over several fds whose set of active sub-sources changes between re-registrations, so that
/// the sub-id of one fd moves back and forth (1 -> 0 -> 1 ...): the key the kernel holds must follow every time
struct Multi {
    fds: Vec<std::os::fd::OwnedFd>,
    active: Vec<bool>,
    registered: Vec<bool>,
    tokens: Vec<Option<calloop::Token>>,
}

impl calloop::EventSource for Multi {
    type Event = ();
    type Metadata = ();
    type Ret = ();
    type Error = std::io::Error;
    fn process_events<F>(&mut self, _: calloop::Readiness, _: calloop::Token, _: F) -> Result<PostAction, Self::Error>
    where
        F: FnMut((), &mut ()),
    {
        Ok(PostAction::Continue)
    }
    fn register(&mut self, poll: &mut calloop::Poll, f: &mut calloop::TokenFactory) -> calloop::Result<()> {
        for i in 0..self.fds.len() {
            if self.active[i] {
                let t = f.token();
                unsafe { poll.register(&self.fds[i], Interest::READ, Mode::Level, t)? };
                self.registered[i] = true;
                self.tokens[i] = Some(t);
            }
        }
        Ok(())
    }
    fn reregister(&mut self, poll: &mut calloop::Poll, f: &mut calloop::TokenFactory) -> calloop::Result<()> {
        for i in 0..self.fds.len() {
            match (self.active[i], self.registered[i]) {
                (true, true) => {
                    let t = f.token();
                    poll.reregister(&self.fds[i], Interest::READ, Mode::Level, t)?;
                    self.tokens[i] = Some(t);
                }
                (true, false) => {
                    let t = f.token();
                    unsafe { poll.register(&self.fds[i], Interest::READ, Mode::Level, t)? };
                    self.registered[i] = true;
                    self.tokens[i] = Some(t);
                }
                (false, true) => {
                    poll.unregister(&self.fds[i])?;
                    self.registered[i] = false;
                    self.tokens[i] = None;
                }
                (false, false) => {}
            }
        }
        Ok(())
    }
    fn unregister(&mut self, poll: &mut calloop::Poll) -> calloop::Result<()> {
        for i in 0..self.fds.len() {
            if self.registered[i] {
                poll.unregister(&self.fds[i])?;
                self.registered[i] = false;
                self.tokens[i] = None;
            }
        }
        Ok(())
    }
}

/// the same with calloop's own Generic as sub-sources (their tokens are private: only the kernel's view is compared)
struct MultiG {
    subs: Vec<Generic<std::os::fd::OwnedFd>>,
    active: Vec<bool>,
    registered: Vec<bool>,
}

impl calloop::EventSource for MultiG {
    type Event = ();
    type Metadata = ();
    type Ret = ();
    type Error = std::io::Error;
    fn process_events<F>(&mut self, _: calloop::Readiness, _: calloop::Token, _: F) -> Result<PostAction, Self::Error>
    where
        F: FnMut((), &mut ()),
    {
        Ok(PostAction::Continue)
    }
    fn register(&mut self, poll: &mut calloop::Poll, f: &mut calloop::TokenFactory) -> calloop::Result<()> {
        for i in 0..self.subs.len() {
            if self.active[i] {
                self.subs[i].register(poll, f)?;
                self.registered[i] = true;
            }
        }
        Ok(())
    }
    fn reregister(&mut self, poll: &mut calloop::Poll, f: &mut calloop::TokenFactory) -> calloop::Result<()> {
        for i in 0..self.subs.len() {
            match (self.active[i], self.registered[i]) {
                (true, true) => self.subs[i].reregister(poll, f)?,
                (true, false) => {
                    self.subs[i].register(poll, f)?;
                    self.registered[i] = true;
                }
                (false, true) => {
                    self.subs[i].unregister(poll)?;
                    self.registered[i] = false;
                }
                (false, false) => {}
            }
        }
        Ok(())
    }
    fn unregister(&mut self, poll: &mut calloop::Poll) -> calloop::Result<()> {
        for i in 0..self.subs.len() {
            if self.registered[i] {
                self.subs[i].unregister(poll)?;
                self.registered[i] = false;
            }
        }
        Ok(())
    }
}

fn kernel_generic_composite_check(args: &Args, res: &mut RunResult) {
    let mut el: EventLoop<()> = EventLoop::try_new().expect("loop");
    let h = el.handle();
    let epfd = el.as_raw_fd();
    let mut rng = Rng::derive(args.seed, 5050, args.shard);
    for round in 0..6 {
        let n = rng.range(2, 4) as usize;
        let fds: Vec<std::os::fd::OwnedFd> = (0..n).map(|_| sysx::eventfd_new()).collect();
        let raws: Vec<i32> = fds.iter().map(|f| f.as_raw_fd()).collect();
        let m = MultiG { subs: fds.into_iter().map(|f| Generic::new(f, Interest::READ, Mode::Level)).collect(), active: (0..n).map(|i| i == 0 || rng.chance(1, 2)).collect(), registered: vec![false; n] };
        let disp = calloop::Dispatcher::new(m, |_, _, _: &mut ()| {});
        let tok = h.register_dispatcher(disp.clone()).expect("register");
        let own = tok.verif_key();
        for step in 0..30 {
            {
                let mut src = disp.as_source_mut();
                let i = rng.below(n as u64) as usize;
                src.active[i] = !src.active[i];
            }
            if let Err(e) = h.update(&tok) {
                res.violations.push(viol(args, "no_err", "update-failed", format!("update() of a source made of Generics failed: {}", e), json!({"engine":"tok","generic_composite_round":round,"step":step})));
                break;
            }
            let table = sysx::epoll_table(epfd);
            let src = disp.as_source_ref();
            let mut keys = Vec::new();
            for i in 0..n {
                match (src.registered[i], table.iter().find(|e| e.tfd == raws[i])) {
                    (true, Some(e)) => {
                        keys.push(e.data);
                        if !same_source(e.data as usize, own) {
                            res.violations.push(viol(args, "kernel_key", "epoll-data-differs-after-rekeying", format!("fd {} of a Generic sub-source carries key {:#x}, which is not a key of its source {:#x}", raws[i], e.data, own), json!({"engine":"tok","generic_composite_round":round,"step":step})));
                        }
                    }
                    (true, None) => res.violations.push(viol(args, "kernel_key", "registered-fd-missing", format!("fd {} is registered but not in the epoll table", raws[i]), json!({"engine":"tok","generic_composite_round":round,"step":step}))),
                    (false, Some(_)) => res.violations.push(viol(args, "kernel_key", "unregistered-fd-present", format!("fd {} is unregistered but still in the epoll table", raws[i]), json!({"engine":"tok","generic_composite_round":round,"step":step}))),
                    (false, None) => {}
                }
            }
            let k = keys.len();
            keys.sort_unstable();
            keys.dedup();
            if keys.len() != k {
                res.violations.push(viol(args, "kernel_key", "duplicate-live-key", format!("two Generic sub-sources of one source share a kernel key after re-registration: {:?}", table.iter().filter(|e| raws.contains(&e.tfd)).collect::<Vec<_>>()), json!({"engine":"tok","generic_composite_round":round,"step":step})));
            }
            res.evaluations += 1;
            res.nontrivial += 1;
            res.classes.insert(fnv(&[111, n as u64, src.active.iter().fold(0u64, |a, b| a * 2 + *b as u64)]));
        }
        h.remove(tok);
        drop(disp);
    }
    el.dispatch(std::time::Duration::ZERO, &mut ()).ok();
    res.ev("kernel_generic_rekeying_steps", 180);
}

fn kernel_composite_check(args: &Args, res: &mut RunResult) {
    let mut el: EventLoop<()> = EventLoop::try_new().expect("loop");
    let h = el.handle();
    let epfd = el.as_raw_fd();
    let mut rng = Rng::derive(args.seed, 4040, args.shard);
    for round in 0..6 {
        let n = rng.range(2, 4) as usize;
        let m = Multi { fds: (0..n).map(|_| sysx::eventfd_new()).collect(), active: (0..n).map(|_| rng.chance(2, 3)).collect(), registered: vec![false; n], tokens: vec![None; n] };
        let raws: Vec<i32> = m.fds.iter().map(|f| f.as_raw_fd()).collect();
        let disp = calloop::Dispatcher::new(m, |_, _, _: &mut ()| {});
        let tok = h.register_dispatcher(disp.clone()).expect("register");
        for step in 0..30 {
            {
                let mut src = disp.as_source_mut();
                // mostly one sub-source goes away or comes back: the ones after it change their sub-id
                let i = rng.below(n as u64) as usize;
                src.active[i] = !src.active[i];
                if rng.chance(1, 4) {
                    let j = rng.below(n as u64) as usize;
                    src.active[j] = !src.active[j];
                }
            }
            if let Err(e) = h.update(&tok) {
                res.violations.push(viol(args, "no_err", "update-failed", format!("update() of a multi-fd source failed: {}", e), json!({"engine":"tok","composite_round":round,"step":step})));
                break;
            }
            let table = sysx::epoll_table(epfd);
            let src = disp.as_source_ref();
            let mut keys = Vec::new();
            for i in 0..n {
                let entry = table.iter().find(|e| e.tfd == raws[i]);
                match (src.registered[i], entry) {
                    (true, Some(e)) => {
                        let want = src.tokens[i].map(|t| t.verif_key() as u64).unwrap_or(u64::MAX);
                        keys.push(e.data);
                        if e.data != want {
                            res.violations.push(viol(
                                args,
                                "kernel_key",
                                "epoll-data-differs-after-rekeying",
                                format!("fd {} (sub-source {} of {}) was given token key {:#x} but the kernel holds {:#x}", raws[i], i, n, want, e.data),
                                json!({"engine":"tok","composite_round":round,"step":step}),
                            ));
                        }
                    }
                    (true, None) => res.violations.push(viol(args, "kernel_key", "registered-fd-missing", format!("fd {} is registered but not in the epoll table", raws[i]), json!({"engine":"tok","composite_round":round,"step":step}))),
                    (false, Some(_)) => res.violations.push(viol(args, "kernel_key", "unregistered-fd-present", format!("fd {} is unregistered but still in the epoll table", raws[i]), json!({"engine":"tok","composite_round":round,"step":step}))),
                    (false, None) => {}
                }
            }
            let k = keys.len();
            keys.sort_unstable();
            keys.dedup();
            if keys.len() != k {
                res.violations.push(viol(args, "kernel_key", "duplicate-live-key", format!("two fds of one source share a kernel key after re-registration: {:?}", table), json!({"engine":"tok","composite_round":round,"step":step})));
            }
            res.evaluations += 1;
            res.nontrivial += 1;
            res.classes.insert(fnv(&[99, n as u64, src.active.iter().fold(0u64, |a, b| a * 2 + *b as u64)]));
        }
        h.remove(tok);
        drop(disp);
    }
    el.dispatch(std::time::Duration::ZERO, &mut ()).ok();
    res.ev("kernel_rekeying_steps", 180);
}

fn main() {
    let args = Args::parse();
    install_panic_hook();
    let t0 = std::time::Instant::now();
    let mut res = RunResult::new(&args, "tok");

    if let Some(path) = &args.replay {
        let v: serde_json::Value = serde_json::from_str(&std::fs::read_to_string(path).expect("replay file")).expect("json");
        let r = &v["replay"];
        if let Some(f) = r.get("factory") {
            let id = f[0].as_u64().unwrap() as u32;
            let ver = f[1].as_u64().unwrap() as u16;
            factory_case(&args, id, ver, r["want"].as_u64().unwrap_or(65537) as u32, &mut res);
        } else if r.get("id").is_some() {
            let (id, ver, s) = (r["id"].as_u64().unwrap() as u32, r["version"].as_u64().unwrap() as u16, r["sub_id"].as_u64().unwrap() as u16);
            println!("pack({},{},{}) = {:#x}; unpack = {:?}", id, ver, s, pack(id, ver, s), unpack(pack(id, ver, s)));
            check_triple(&args, id, ver, s, &mut res);
            plane(&args, id, ver as u32, ver as u32 + 1, &mut res);
        } else {
            kernel_cross_check(&args, &mut res);
        kernel_composite_check(&args, &mut res);
        kernel_generic_composite_check(&args, &mut res);
            kernel_composite_check(&args, &mut res);
        kernel_generic_composite_check(&args, &mut res);
            kernel_generic_composite_check(&args, &mut res);
        }
        for v in &res.violations {
            println!("reproduced: {} :: {}", v.signature(), v.detail);
        }
        res.write(&args.out);
        return;
    }

    let ids = ids_for(&args);
    // each shard takes a slice of the version range of every id: together the shards
    // enumerate every (version, sub-id) pair of every chosen id
    let per = 65536 / args.nshards as u32;
    let v_lo = per * args.shard as u32;
    let v_hi = if args.shard + 1 == args.nshards { 65536 } else { per * (args.shard as u32 + 1) };
    for id in &ids {
        mark_case(&args.out, *id as u64, "plane");
        plane(&args, *id, v_lo, v_hi, &mut res);
        res.classes.insert(fnv(&[1, *id as u64, v_lo as u64]));
        if res.violations.len() > 20 {
            break;
        }
    }
    if args.shard == 0 {
        res.cov("ids_enumerated", ids.len() as u64);
    }
    res.notes.push(format!("ids: {:?}", ids));
    res.exhaustive = true;

    let n_rand = if args.thorough() { 100_000_000 } else { 8_000_000 } / args.nshards;
    random_triples(&args, n_rand, &mut res);

    // token factories: shard i takes every nshards-th configuration
    let mut cfgs: Vec<(u32, u16, u32)> = Vec::new();
    let mut rng = Rng::derive(args.seed, 4040, 0);
    for want in [1u32, 2, 3, 255, 256, 257, 65534, 65535, 65536, 65537, 70000] {
        cfgs.push((0, 0, want));
        cfgs.push((rng.below(u32::MAX as u64) as u32, rng.next() as u16, want));
    }
    let extra = if args.thorough() { 64 } else { 8 };
    for _ in 0..extra {
        cfgs.push((rng.below(u32::MAX as u64) as u32, rng.next() as u16, rng.range(1, 65537) as u32));
        cfgs.push((u32::MAX - 1, u16::MAX, 65537));
    }
    for (i, (id, v, want)) in cfgs.iter().enumerate() {
        if i as u64 % args.nshards == args.shard {
            mark_case(&args.out, i as u64, "factory");
            factory_case(&args, *id, *v, *want, &mut res);
        }
    }
    if args.shard == 0 {
        mark_case(&args.out, 0, "kernel");
        kernel_cross_check(&args, &mut res);
        kernel_composite_check(&args, &mut res);
        kernel_generic_composite_check(&args, &mut res);
    }

    res.samples.push(json!({"triple":[ids[ids.len()/2], v_lo, 0x155], "key": format!("{:#x}", pack(ids[ids.len()/2], v_lo as u16, 0x155)), "decoded": format!("{:?}", unpack(pack(ids[ids.len()/2], v_lo as u16, 0x155)))}));
    res.samples.push(json!({"factory": cfgs[args.shard as usize % cfgs.len()]}));
    res.wall_s = t0.elapsed().as_secs_f64();
    res.write(&args.out);
}
