//! C17: Async adapter: byte-exact I/O, tasks always woken, blocking mode restored.

use calloop::futures::executor;
use calloop::io::Async;
use calloop::EventLoop;
use cverif::hist::zoo::FdX;
use cverif::*;
use futures::io::{AsyncReadExt, AsyncWriteExt};
use serde::{Deserialize, Serialize};
use serde_json::json;
use std::cell::Cell;
use std::future::Future;
use std::io::{IoSlice, IoSliceMut, Read, Write};
use std::os::fd::{AsRawFd, OwnedFd};
use std::pin::Pin;
use std::rc::Rc;
use std::task::{Context, Poll};
use std::time::{Duration, Instant};

#[derive(Clone, Debug, Serialize, Deserialize)]
struct Case {
    seed: u64,
    case: u64,
    len: usize,
    /// 0 socketpair, 1 pipe
    transport: u8,
    /// who writes: 0 task, 1 peer thread; who reads: 0 task, 1 peer thread (not both threads)
    writer_is_thread: bool,
    reader_is_thread: bool,
    write_mode: u8,
    read_mode: u8,
    max_chunk: usize,
    blocking_before: bool,
    /// 0 executor, 1 block_on
    driver: u8,
    /// how the adapters end: 0 drop, 1 into_inner
    end: u8,
    echo: bool,
    /// (executor driver) before this dispatch iteration a second adapt_io() on an fd that is adapted already is
    /// attempted; it must be refused and leave the live adapter working
    #[serde(default)]
    refuse_at: Option<u8>,
    /// (executor driver) a timer that is due again at every poll shares the loop
    #[serde(default)]
    ticker: bool,
}

/// polls of any task, visible to watchdog threads
static ACTIVITY: std::sync::atomic::AtomicU64 = std::sync::atomic::AtomicU64::new(0);

struct Counted<F> {
    f: Pin<Box<F>>,
    polls: Rc<Cell<u64>>,
}
impl<F: Future> Future for Counted<F> {
    type Output = F::Output;
    fn poll(mut self: Pin<&mut Self>, cx: &mut Context<'_>) -> Poll<F::Output> {
        ACTIVITY.fetch_add(1, std::sync::atomic::Ordering::Relaxed);
        self.polls.set(self.polls.get() + 1);
        self.f.as_mut().poll(cx)
    }
}

#[derive(Default)]
struct Shared {
    writer_done: Cell<bool>,
    reader_done: Cell<bool>,
    written: Cell<usize>,
    read: Cell<usize>,
    io_error: std::cell::RefCell<Option<String>>,
}

async fn write_task(mut a: Async<'static, FdX>, data: Rc<Vec<u8>>, mode: u8, max_chunk: usize, seed: u64, sh: Rc<Shared>) -> Async<'static, FdX> {
    let mut rng = Rng::new(seed ^ 0xabc);
    let mut off = 0usize;
    if mode >= 4 {
        // an operation in the other direction was begun and abandoned while pending (the losing branch of a
        // select): its interest and waker are still in place when the task turns to writing
        use futures::FutureExt;
        let _ = a.readable().now_or_never();
    }
    while off < data.len() {
        let n = (rng.range(1, max_chunk as u64) as usize).min(data.len() - off);
        let r: std::io::Result<usize> = match mode % 4 {
            0 => a.write(&data[off..off + n]).await,
            1 => a.write_all(&data[off..off + n]).await.map(|_| n),
            2 => {
                let mid = n / 2;
                let bufs = [IoSlice::new(&data[off..off + mid]), IoSlice::new(&data[off + mid..off + n])];
                a.write_vectored(&bufs).await
            }
            _ => {
                // wait for writability, then write directly through get_mut()
                a.writable().await;
                match a.get_mut().write(&data[off..off + n]) {
                    Ok(w) => Ok(w),
                    Err(e) if e.kind() == std::io::ErrorKind::WouldBlock => Ok(0),
                    Err(e) => Err(e),
                }
            }
        };
        match r {
            Ok(w) => {
                off += w;
                sh.written.set(off);
            }
            Err(e) => {
                *sh.io_error.borrow_mut() = Some(format!("write failed at offset {}: {}", off, e));
                break;
            }
        }
    }
    let _ = a.flush().await;
    sh.writer_done.set(true);
    a
}

async fn read_task(mut a: Async<'static, FdX>, total: usize, mode: u8, max_chunk: usize, seed: u64, sh: Rc<Shared>, out: Rc<std::cell::RefCell<Vec<u8>>>) -> Async<'static, FdX> {
    let mut rng = Rng::new(seed ^ 0xdef);
    let mut got = 0usize;
    let mut buf = vec![0u8; max_chunk.max(2)];
    if mode >= 3 {
        // the adapter is first polled on behalf of somebody else (a lost select branch, a hand-over between
        // tasks): one poll with a foreign waker, then the owning task awaits it with its own
        use futures::FutureExt;
        match mode {
            3 => {
                if let Some(Ok(k)) = a.read(&mut buf[..1]).now_or_never() {
                    if k == 1 {
                        out.borrow_mut().push(buf[0]);
                        got += 1;
                        sh.read.set(got);
                    }
                }
            }
            _ => {
                let _ = a.readable().now_or_never();
            }
        }
    }
    while got < total {
        let n = (rng.range(1, max_chunk as u64) as usize).min(total - got).max(1);
        let r: std::io::Result<usize> = match if mode >= 3 { (mode - 3) * 2 } else { mode } {
            0 => a.read(&mut buf[..n]).await,
            1 => {
                let (x, y) = buf[..n.max(2)].split_at_mut(n.max(2) / 2);
                let mut bufs = [IoSliceMut::new(x), IoSliceMut::new(y)];
                let r = a.read_vectored(&mut bufs).await;
                r
            }
            _ => {
                a.readable().await;
                match a.get_mut().read(&mut buf[..n]) {
                    Ok(r) => Ok(r),
                    Err(e) if e.kind() == std::io::ErrorKind::WouldBlock => Ok(usize::MAX),
                    Err(e) => Err(e),
                }
            }
        };
        match r {
            Ok(usize::MAX) => {}
            Ok(0) => {
                *sh.io_error.borrow_mut() = Some(format!("unexpected end of stream after {} of {} bytes", got, total));
                break;
            }
            Ok(k) => {
                out.borrow_mut().extend_from_slice(&buf[..k]);
                got += k;
                sh.read.set(got);
            }
            Err(e) => {
                *sh.io_error.borrow_mut() = Some(format!("read failed after {} bytes: {}", got, e));
                break;
            }
        }
    }
    sh.reader_done.set(true);
    a
}

fn make_pair(transport: u8) -> (OwnedFd, OwnedFd) {
    // (write end, read end); blocking
    let (w, r) = if transport == 0 { sysx::socket_pair() } else { let (r, w) = sysx::pipe_pair(); (w, r) };
    sysx::set_nonblocking(w.as_raw_fd(), false);
    sysx::set_nonblocking(r.as_raw_fd(), false);
    (w, r)
}

struct Alarm {
    clause: String,
    culprit: String,
    detail: String,
}

fn run_case(c: &Case) -> (Vec<Alarm>, Vec<String>, u64, u64) {
    let alarms: std::cell::RefCell<Vec<Alarm>> = std::cell::RefCell::new(Vec::new());
    let mut inconclusive = Vec::new();
    let alarm = |cl: &str, cu: &str, d: String| alarms.borrow_mut().push(Alarm { clause: cl.into(), culprit: cu.into(), detail: d });
    let mut rng = Rng::derive(c.seed, c.case, 17);
    let data: Rc<Vec<u8>> = Rc::new((0..c.len).map(|_| rng.next() as u8).collect());
    let (wfd, rfd) = make_pair(c.transport);
    let (wraw, rraw) = (wfd.as_raw_fd(), rfd.as_raw_fd());
    if !c.blocking_before {
        sysx::set_nonblocking(wraw, true);
        sysx::set_nonblocking(rraw, true);
    }
    let mut el: EventLoop<'static, u64> = EventLoop::try_new().expect("loop");
    let h = el.handle();
    let sh = Rc::new(Shared::default());
    let out = Rc::new(std::cell::RefCell::new(Vec::with_capacity(c.len)));
    let polls = Rc::new(Cell::new(0u64));
    let returned: Rc<std::cell::RefCell<Vec<Async<'static, FdX>>>> = Rc::new(std::cell::RefCell::new(Vec::new()));
    let mut threads = Vec::new();
    let mut raw_keep: Vec<OwnedFd> = Vec::new();
    // peer threads use plain blocking I/O on their end
    let data_for_thread: Vec<u8> = (*data).clone();
    let mut wr_adapter = None;
    let mut rd_adapter = None;
    if c.writer_is_thread {
        sysx::set_nonblocking(wraw, false);
        let mut f = std::fs::File::from(wfd);
        let seed = c.seed ^ c.case;
        let mc = c.max_chunk;
        threads.push(std::thread::spawn(move || {
            let mut r = Rng::new(seed ^ 0x77);
            let mut off = 0;
            while off < data_for_thread.len() {
                let n = (r.range(1, mc as u64) as usize).min(data_for_thread.len() - off);
                if f.write_all(&data_for_thread[off..off + n]).is_err() {
                    break;
                }
                off += n;
                if r.chance(1, 6) {
                    std::thread::sleep(Duration::from_micros(r.below(400)));
                }
            }
            Vec::new()
        }));
        sh.writer_done.set(true);
    } else {
        match h.adapt_io(FdX::owned(wfd)) {
            Ok(a) => wr_adapter = Some(a),
            Err(e) => {
                inconclusive.push(format!("adapt_io(write end) failed: {}", e));
                return (alarms.into_inner(), inconclusive, 0, 0);
            }
        }
        if !sysx::is_nonblocking(wraw) {
            alarm("nonblocking_inside", "adapter-left-fd-blocking", format!("fd {} is blocking inside its adapter", wraw));
        }
    }
    if c.reader_is_thread {
        sysx::set_nonblocking(rraw, false);
        let mut f = std::fs::File::from(rfd);
        let total = c.len;
        let seed = c.seed ^ c.case;
        let mc = c.max_chunk;
        threads.push(std::thread::spawn(move || {
            let mut r = Rng::new(seed ^ 0x99);
            let mut v = Vec::with_capacity(total);
            let mut buf = vec![0u8; mc.max(1)];
            while v.len() < total {
                let n = (r.range(1, mc as u64) as usize).min(total - v.len());
                match f.read(&mut buf[..n]) {
                    Ok(0) | Err(_) => break,
                    Ok(k) => v.extend_from_slice(&buf[..k]),
                }
                if r.chance(1, 6) {
                    std::thread::sleep(Duration::from_micros(r.below(400)));
                }
            }
            v
        }));
        sh.reader_done.set(true);
    } else {
        match h.adapt_io(FdX::owned(rfd)) {
            Ok(a) => rd_adapter = Some(a),
            Err(e) => {
                inconclusive.push(format!("adapt_io(read end) failed: {}", e));
                return (alarms.into_inner(), inconclusive, 0, 0);
            }
        }
        if !sysx::is_nonblocking(rraw) {
            alarm("nonblocking_inside", "adapter-left-fd-blocking", format!("fd {} is blocking inside its adapter", rraw));
        }
    }
    let _ = &mut raw_keep;
    let seed = c.seed ^ c.case;
    let wfut = wr_adapter.map(|a| write_task(a, data.clone(), c.write_mode, c.max_chunk, seed, sh.clone()));
    let rfut = rd_adapter.map(|a| read_task(a, c.len, c.read_mode, c.max_chunk, seed, sh.clone(), out.clone()));
    let t0 = Instant::now();
    let mut idle_hits = 0;
    let check_idle = |elapsed: Duration, polled: bool, alarms: &std::cell::RefCell<Vec<Alarm>>| {
        // the loop idled for the whole timeout although a task is pending on an fd that is ready for what it awaits
        if polled || elapsed < Duration::from_millis(100) {
            return false;
        }
        let mut hit = false;
        if !sh.reader_done.get() && !c.reader_is_thread && sysx::readable_now(rraw) {
            alarms.borrow_mut().push(Alarm { clause: "woken".into(), culprit: "reader-not-woken-with-readable-fd".into(), detail: format!("the reader task has {} of {} bytes, its fd is readable, and a 100 ms dispatch polled no task", sh.read.get(), c.len) });
            hit = true;
        }
        if !sh.writer_done.get() && !c.writer_is_thread && sysx::writable_now(wraw) {
            alarms.borrow_mut().push(Alarm { clause: "woken".into(), culprit: "writer-not-woken-with-writable-fd".into(), detail: format!("the writer task has written {} of {} bytes, its fd is writable, and a 100 ms dispatch polled no task", sh.written.get(), c.len) });
            hit = true;
        }
        hit
    };
    let mut evs = 0u64;
    if c.driver == 0 {
        let (ex, sched) = executor::<Async<'static, FdX>>().expect("executor");
        let ret = returned.clone();
        let exec_token = h
            .insert_source(ex, move |a, _, n: &mut u64| {
                *n += 1;
                ret.borrow_mut().push(a);
            })
            .expect("insert executor");
        if let Some(f) = wfut {
            sched.schedule(Counted { f: Box::pin(f), polls: polls.clone() }).expect("schedule");
        }
        if let Some(f) = rfut {
            sched.schedule(Counted { f: Box::pin(f), polls: polls.clone() }).expect("schedule");
        }
        if c.ticker {
            h.insert_source(calloop::timer::Timer::immediate(), |_, _, _: &mut u64| calloop::timer::TimeoutAction::ToDuration(Duration::ZERO)).expect("ticker");
        }
        let mut iteration = 0u32;
        // with the ticker no dispatch ever lasts its timeout: a stall shows as a long run of dispatches in which no
        // task is polled although one is pending on a ready fd
        let mut barren: u32 = 0;
        let mut barren_since = Instant::now();
        while !(sh.writer_done.get() && sh.reader_done.get()) {
            if c.refuse_at.map(|k| k as u32 == iteration).unwrap_or(false) {
                for (is_task, raw) in [(!c.reader_is_thread, rraw), (!c.writer_is_thread, wraw)] {
                    if !is_task {
                        continue;
                    }
                    match h.adapt_io(FdX::named(raw)) {
                        Err(_) => {}
                        Ok(second) => {
                            alarm("refused_duplicate", "second-adapter-on-an-adapted-fd-accepted", format!("adapt_io() on fd {} succeeded although a live adapter holds it", raw));
                            std::mem::forget(second);
                        }
                    }
                    if !sysx::is_nonblocking(raw) {
                        alarm("nonblocking_inside", "refused-adapt_io-made-the-fd-blocking", format!("fd {} is blocking inside its adapter after a refused second adapt_io()", raw));
                    }
                }
            }
            iteration += 1;
            let before = polls.get();
            let t = Instant::now();
            if let Err(e) = el.dispatch(Some(Duration::from_millis(100)), &mut evs) {
                alarm("completes", "dispatch-error", format!("dispatch failed: {}", e));
                break;
            }
            // the state must persist over two consecutive dispatches: the first one may have ended with the
            // event just handled (task woken, to be polled by the next dispatch)
            if c.ticker {
                if polls.get() != before {
                    barren = 0;
                    barren_since = Instant::now();
                } else {
                    barren += 1;
                    if barren >= 3000 && barren_since.elapsed() >= Duration::from_millis(400) {
                        let staged: std::cell::RefCell<Vec<Alarm>> = std::cell::RefCell::new(Vec::new());
                        if check_idle(Duration::from_secs(1), false, &staged) {
                            alarms.borrow_mut().extend(staged.into_inner());
                        } else {
                            inconclusive.push(format!("{} dispatches without a task being polled, fds not ready: slow peer?", barren));
                        }
                        break;
                    }
                }
            }
            let staged: std::cell::RefCell<Vec<Alarm>> = std::cell::RefCell::new(Vec::new());
            if check_idle(t.elapsed(), polls.get() != before, &staged) {
                idle_hits += 1;
                if idle_hits >= 2 {
                    alarms.borrow_mut().extend(staged.into_inner());
                    break;
                }
            } else {
                idle_hits = 0;
            }
            if sh.io_error.borrow().is_some() {
                break;
            }
            if t0.elapsed() > Duration::from_secs(30) {
                inconclusive.push(format!("transfer of {} bytes not finished after 30 s ({} written, {} read)", c.len, sh.written.get(), sh.read.get()));
                break;
            }
        }
        // collect the adapters the tasks hand back
        for _ in 0..3 {
            let _ = el.dispatch(Some(Duration::ZERO), &mut evs);
        }
        drop(sched);
        if !(sh.writer_done.get() && sh.reader_done.get()) {
            // a transfer that was cut short leaves its tasks - and with them the adapters, which are handles to the
            // loop - inside the executor inside the loop: the harness takes apart the reference cycle it built
            h.remove(exec_token);
        }
    } else {
        // block_on drives both tasks
        let ret = returned.clone();
        let p2 = polls.clone();
        let both = async move {
            let w = async {
                match wfut {
                    Some(f) => Some(f.await),
                    None => None,
                }
            };
            let r = async {
                match rfut {
                    Some(f) => Some(f.await),
                    None => None,
                }
            };
            let (a, b) = futures::join!(w, r);
            if let Some(a) = a {
                ret.borrow_mut().push(a);
            }
            if let Some(b) = b {
                ret.borrow_mut().push(b);
            }
        };
        // a watchdog thread stops the loop if the transfer stalls (verdict by the readiness predicate)
        let sig = el.get_signal();
        let stall_limit: u64 = if c.len > (1 << 20) { 20 } else { 6 };
        let fin = std::sync::Arc::new(std::sync::atomic::AtomicBool::new(false));
        let fin2 = fin.clone();
        let wd = std::thread::spawn(move || {
            // a stall, not a slow transfer: no task was polled for the whole limit
            let mut t = Instant::now();
            let mut seen = ACTIVITY.load(std::sync::atomic::Ordering::Relaxed);
            while !fin2.load(std::sync::atomic::Ordering::SeqCst) {
                let now = ACTIVITY.load(std::sync::atomic::Ordering::Relaxed);
                if now != seen {
                    seen = now;
                    t = Instant::now();
                }
                if t.elapsed() > Duration::from_secs(stall_limit) {
                    sig.stop();
                    sig.wakeup();
                    return true;
                }
                std::thread::sleep(Duration::from_millis(2));
            }
            false
        });
        let r = el.block_on(Counted { f: Box::pin(both), polls: p2 }, &mut evs, |_| {});
        fin.store(true, std::sync::atomic::Ordering::SeqCst);
        let fired = wd.join().unwrap_or(false);
        match r {
            Ok(Some(())) => {}
            Ok(None) if fired => {
                if !check_idle(Duration::from_secs(1), false, &alarms) {
                    inconclusive.push("block_on transfer stopped by the watchdog, fds not ready: slow peer?".into());
                }
            }
            Ok(None) => alarm("completes", "block_on-returned-none", "block_on returned None without a stop request".into()),
            Err(e) => alarm("completes", "dispatch-error", format!("block_on failed: {}", e)),
        }
    }
    let mut thread_read: Option<Vec<u8>> = None;
    if !alarms.borrow().is_empty() || !inconclusive.is_empty() || sh.io_error.borrow().is_some() {
        // a stalled transfer leaves the peer thread blocked in read/write: it is not waited for
        threads.clear();
    }
    for t in threads {
        if let Ok(v) = t.join() {
            if c.reader_is_thread && !v.is_empty() {
                thread_read = Some(v);
            }
        }
    }
    if let Some(e) = sh.io_error.borrow().clone() {
        alarm("bytes_exact", "io-error", e);
    }
    if alarms.borrow().is_empty() && inconclusive.is_empty() {
        let got: Vec<u8> = match thread_read {
            Some(v) => v,
            None => out.borrow().clone(),
        };
        if got.len() != data.len() {
            alarm("bytes_exact", "length-differs", format!("{} bytes sent, {} received", data.len(), got.len()));
        } else if let Some(p) = got.iter().zip(data.iter()).position(|(a, b)| a != b) {
            alarm("bytes_exact", "content-differs", format!("first difference at offset {} of {}", p, data.len()));
        }
    }
    // blocking mode restored when the adapters go
    let expected_nb = !c.blocking_before;
    let ads: Vec<Async<'static, FdX>> = std::mem::take(&mut *returned.borrow_mut());
    let mut kept: Vec<FdX> = Vec::new();
    for a in ads {
        if c.end == 1 {
            let f = a.into_inner();
            let raw = f.raw;
            let nb = sysx::is_nonblocking(raw);
            if nb != expected_nb {
                alarm("mode_restored", "blocking-mode-not-restored-by-into_inner", format!("fd {}: non-blocking {} after into_inner, {} before the adapter", raw, nb, expected_nb));
            }
            // and the fd is free again: it can be adapted anew
            match h.adapt_io(f) {
                Ok(a2) => drop(a2),
                Err(e) => alarm("mode_restored", "fd-not-reusable-after-into_inner", format!("re-adapting fd {} failed: {}", raw, e)),
            }
        } else {
            // dropping an adapter over an fd that stays open: look at the flags through a dup
            let raw = {
                let mut a = a;
                let r = a.get_mut().raw;
                let d = sysx::dup_fd(r);
                drop(a);
                d
            };
            let nb = sysx::is_nonblocking(raw.as_raw_fd());
            if nb != expected_nb {
                alarm("mode_restored", "blocking-mode-not-restored-by-drop", format!("non-blocking {} after drop, {} before the adapter", nb, expected_nb));
            }
        }
    }
    drop(kept.drain(..));
    let _ = &alarm;
    (alarms.into_inner(), inconclusive, polls.get(), evs)
}

fn gen_case(args: &Args, case: u64) -> Case {
    let mut rng = Rng::derive(args.seed, case, 171);
    let big = if args.thorough() { 4 << 20 } else { 512 << 10 };
    let len = match rng.below(6) {
        0 => rng.range(1, 64) as usize,
        1 | 2 => rng.range(64, 8192) as usize,
        3 | 4 => rng.range(8192, 300_000) as usize,
        _ => rng.range(200_000, big) as usize,
    };
    let max_chunk = match rng.below(4) {
        0 => rng.range(1, 16) as usize,
        1 => rng.range(16, 4096) as usize,
        2 => rng.range(4096, 70_000) as usize,
        _ => rng.range(70_000, 1 << 20) as usize,
    };
    // tiny chunks on big transfers would take forever: bound the number of operations
    let max_chunk = max_chunk.max(len / 20_000 + 1);
    let who = rng.below(4);
    Case {
        seed: args.seed,
        case,
        len,
        transport: rng.below(2) as u8,
        writer_is_thread: who == 1,
        reader_is_thread: who == 2,
        write_mode: rng.below(8) as u8,
        read_mode: rng.below(5) as u8,
        max_chunk,
        blocking_before: rng.chance(1, 2),
        driver: rng.below(3).min(1) as u8,
        end: rng.below(2) as u8,
        echo: false,
        refuse_at: if rng.chance(1, 4) { Some(rng.below(4) as u8) } else { None },
        ticker: rng.chance(1, 6),
    }
}

fn main() {
    let args = Args::parse();
    install_panic_hook();
    let t0 = Instant::now();
    let mut res = RunResult::new(&args, "aio");
    if let Some(path) = &args.replay {
        let v: serde_json::Value = serde_json::from_str(&std::fs::read_to_string(path).expect("replay file")).expect("json");
        let c: Case = serde_json::from_value(v["replay"]["case"].clone()).expect("case");
        println!("replaying {:?}", c);
        let (alarms, inc, polls, _) = run_case(&c);
        println!("{} task polls; inconclusive: {:?}", polls, inc);
        for a in &alarms {
            println!("alarm: {} / {} :: {}", a.clause, a.culprit, a.detail);
            res.violations.push(Violation { prop: args.prop.clone(), clause: a.clause.clone(), culprit: a.culprit.clone(), detail: a.detail.clone(), replay: v["replay"].clone() });
        }
        res.evaluations = 1;
        res.write(&args.out);
        return;
    }
    let total = args.get_u64("cases", if args.thorough() { 40_000 } else { 1_600 });
    let per = total / args.nshards;
    let budget = args.get_u64("budget", if args.thorough() { 1500 } else { 60 });
    let mut seen = std::collections::BTreeSet::new();
    for i in 0..per {
        if t0.elapsed().as_secs() > budget {
            res.notes.push(format!("time budget reached after {} of {} cases in shard {}", i, per, args.shard));
            break;
        }
        let case = args.shard * per + i;
        let c = gen_case(&args, case);
        mark_case(&args.out, case, "aio");
        let (alarms, inc, polls, _) = run_case(&c);
        res.evaluations += 1;
        res.ev("bytes_moved", c.len as u64);
        res.ev("task_polls", polls);
        for m in inc {
            if res.inconclusive.len() < 5 {
                res.inconclusive.push(format!("case {}: {}", case, m));
            }
            res.cov("inconclusive_executions", 1);
        }
        let szc = match c.len {
            0..=63 => 0,
            64..=8191 => 1,
            8192..=219_999 => 2,
            _ => 3,
        };
        let chc = match c.max_chunk {
            0..=15 => 0,
            16..=4095 => 1,
            4096..=69_999 => 2,
            _ => 3,
        };
        res.nontrivial += 1;
        res.classes.insert(fnv(&[szc, chc, c.transport as u64, c.writer_is_thread as u64, c.reader_is_thread as u64, c.write_mode as u64, c.read_mode as u64, c.blocking_before as u64, c.driver as u64, c.end as u64]));
        res.cov(&format!("size-class-{}", szc), 1);
        res.cov(if c.driver == 0 { "driver:executor" } else { "driver:block_on" }, 1);
        res.cov(if c.blocking_before { "fd-blocking-beforehand" } else { "fd-nonblocking-beforehand" }, 1);
        if c.len > 220_000 {
            res.cov("transfer-larger-than-socket-buffer", 1);
        }
        if res.samples.len() < 2 && alarms.is_empty() {
            res.samples.push(json!({"case": c, "task_polls": polls}));
        }
        for a in &alarms {
            let sig = format!("{}/{}", a.clause, a.culprit);
            res.cov(&format!("alarm:{}", sig), 1);
            if seen.insert(sig) && res.violations.len() < 10 {
                res.violations.push(Violation { prop: args.prop.clone(), clause: a.clause.clone(), culprit: a.culprit.clone(), detail: format!("{} [case {}: {:?}]", a.detail, case, c), replay: json!({"engine": "aio", "case": c}) });
            }
        }
    }
    res.wall_s = t0.elapsed().as_secs_f64();
    res.write(&args.out);
}
