//! C12: dispatch() waits exactly as long as it should: no spinning, no oversleeping.
//!
//! Grid: timeout x armed timer x idle population; one fresh loop per cell. Lower bounds are
//! exact (load cannot break them); upper bounds are generous and need three consecutive
//! failures of the same cell to count.

use calloop::channel::channel;
use calloop::futures::executor;
use calloop::generic::Generic;
use calloop::ping::make_ping;
use calloop::timer::{TimeoutAction, Timer};
use calloop::{EventLoop, Interest, Mode, PostAction};
use cverif::*;
use serde_json::json;
use std::cell::Cell;
use std::os::fd::OwnedFd;
use std::rc::Rc;
use std::time::{Duration, Instant};

const TIMEOUTS: [Option<u64>; 5] = [Some(0), Some(5), Some(40), Some(200), None];
const TIMERS: [&str; 8] = ["none", "earlier", "equal", "later", "expired", "one-hour", "unrepresentable", "earlier-rearmed-from-unrepresentable"];
const POPS: [&str; 21] = ["idle-callback-queued", "cancelled-idle-callback-queued", "adapter-waiting-for-readability-after-a-wait-for-writability", "expired-timer-removed-before-any-dispatch", "armed-timer-rearmed-into-the-past-then-removed", "sync-channel-drained-exactly-at-its-bound", "rendezvous-channel-after-refused-try_send", "channel-1024-messages-delivered", "lifecycle-source-slow-before-sleep", "signals-interrupt-the-wait", "lifecycle-source-slow-before-sleep-and-signals", "self-removed-source-whose-slot-was-reused", "empty", "ping-live-handle", "ping-all-handles-gone", "channel-all-senders-gone", "empty-executor", "generic-level-not-ready", "generic-empty-interest-ready", "fired-oneshot-still-ready", "disabled-sources-with-pending-readiness"];

struct Cell_ {
    timeout: Option<u64>,
    timer: &'static str,
    pop: &'static str,
}

struct Measured {
    elapsed: Duration,
    limit: Option<Duration>,
    timer_fired: bool,
    timer_is_limit: Option<bool>,
    other_callbacks: u32,
    helper_used: bool,
    /// time the population's before_sleep hook takes (the user's own time inside the dispatch)
    hook: Duration,
    until_deadline: Option<Duration>,
    /// signals that interrupted the wait
    interrupts: u32,
}

/// A source with lifecycle hooks and no fd whose before_sleep takes a while (it flushes a buffer, say)
struct SlowHook(Duration);

impl calloop::EventSource for SlowHook {
    type Event = ();
    type Metadata = ();
    type Ret = ();
    type Error = std::io::Error;
    const NEEDS_EXTRA_LIFECYCLE_EVENTS: bool = true;
    fn process_events<F>(&mut self, _: calloop::Readiness, _: calloop::Token, _: F) -> Result<PostAction, Self::Error>
    where
        F: FnMut((), &mut ()),
    {
        Ok(PostAction::Continue)
    }
    fn register(&mut self, _: &mut calloop::Poll, _: &mut calloop::TokenFactory) -> calloop::Result<()> {
        Ok(())
    }
    fn reregister(&mut self, _: &mut calloop::Poll, _: &mut calloop::TokenFactory) -> calloop::Result<()> {
        Ok(())
    }
    fn unregister(&mut self, _: &mut calloop::Poll) -> calloop::Result<()> {
        Ok(())
    }
    fn before_sleep(&mut self) -> calloop::Result<Option<(calloop::Readiness, calloop::Token)>> {
        std::thread::sleep(self.0);
        Ok(None)
    }
}

static INTERRUPTS: std::sync::atomic::AtomicU32 = std::sync::atomic::AtomicU32::new(0);

extern "C" fn on_sigusr2(_: libc::c_int) {
    INTERRUPTS.fetch_add(1, std::sync::atomic::Ordering::SeqCst);
}

/// a handler without SA_RESTART: the signal makes the loop thread's epoll_wait fail with EINTR
fn install_interrupt_handler() {
    unsafe {
        let mut sa: libc::sigaction = std::mem::zeroed();
        sa.sa_sigaction = on_sigusr2 as *const () as usize;
        libc::sigemptyset(&mut sa.sa_mask);
        sa.sa_flags = 0;
        libc::sigaction(libc::SIGUSR2, &sa, std::ptr::null_mut());
    }
}

const HOOK_MS: u64 = 60;

fn measure(c: &Cell_) -> Measured {
    let mut el: EventLoop<u32> = EventLoop::try_new().expect("loop");
    let h = el.handle();
    let mut keep: Vec<Box<dyn std::any::Any>> = Vec::new();
    let mut keep_fds: Vec<OwnedFd> = Vec::new();
    // idle population: nothing of this may shorten or lengthen the wait
    let mut keep_async: Vec<calloop::io::Async<'_, OwnedFd>> = Vec::new();
    let slow_hook = c.pop.starts_with("lifecycle-source-slow-before-sleep");
    let interrupted = c.pop.contains("signals");
    match c.pop {
        _ if slow_hook => {
            h.insert_source(SlowHook(Duration::from_millis(HOOK_MS)), |_, _, n| *n += 1).unwrap();
        }
        "adapter-waiting-for-readability-after-a-wait-for-writability" => {
            // an Async adapter first waits for writability (granted by the warm-up dispatches), then for readability
            // while its peer stays silent: only the read interest may be armed now
            use std::future::Future;
            let (a, b) = sysx::socket_pair();
            let mut ad = h.adapt_io(a).expect("adapt_io");
            let wk = futures::task::noop_waker();
            let mut cx = std::task::Context::from_waker(&wk);
            {
                let mut f = Box::pin(ad.writable());
                let _ = f.as_mut().poll(&mut cx);
            }
            keep_async.push(ad);
            keep_fds.push(b);
        }
        "expired-timer-removed-before-any-dispatch" => {
            // the timer's deadline passes while the loop is not being dispatched; then it is removed: nothing of it may
            // stay behind in the loop's timer bookkeeping
            let t = h.insert_source(Timer::from_duration(Duration::from_millis(1)), |_, _, n| {
                *n += 1;
                TimeoutAction::Drop
            })
            .unwrap();
            std::thread::sleep(Duration::from_millis(4));
            h.remove(t);
        }
        "armed-timer-rearmed-into-the-past-then-removed" => {
            let d = calloop::Dispatcher::new(Timer::from_duration(Duration::from_secs(5)), |_, _, n: &mut u32| {
                *n += 1;
                TimeoutAction::Drop
            });
            let t = h.register_dispatcher(d.clone()).unwrap();
            std::thread::sleep(Duration::from_millis(2));
            // (the deadline the timer was armed with is not the one it holds now)
            d.as_source_mut().set_deadline(Instant::now().checked_sub(Duration::from_millis(1)).unwrap_or_else(Instant::now));
            h.disable(&t).unwrap();
            keep.push(Box::new(d));
        }
        "sync-channel-drained-exactly-at-its-bound" => {
            // a full bounded channel is emptied by one dispatch: nothing is left that could justify another wake-up
            let (tx, rx) = calloop::channel::sync_channel::<u8>(3);
            h.insert_source(rx, |_, _, _| {}).unwrap();
            for i in 0..3 {
                tx.send(i).unwrap();
            }
            keep.push(Box::new(tx));
        }
        "rendezvous-channel-after-refused-try_send" => {
            let (tx, rx) = calloop::channel::sync_channel::<u8>(0);
            h.insert_source(rx, |_, _, _| {}).unwrap();
            let _ = tx.try_send(1);
            keep.push(Box::new(tx));
        }
        "channel-1024-messages-delivered" => {
            // exactly the per-dispatch batch limit: the re-ping for "maybe more" costs one more (warm-up) dispatch at most
            let (tx, rx) = channel::<u16>();
            h.insert_source(rx, |_, _, _| {}).unwrap();
            for i in 0..1024 {
                tx.send(i).unwrap();
            }
            keep.push(Box::new(tx));
        }
        "ping-live-handle" => {
            let (p, s) = make_ping().unwrap();
            h.insert_source(s, |_, _, n| *n += 1).unwrap();
            keep.push(Box::new(p));
        }
        "ping-all-handles-gone" => {
            let (p, s) = make_ping().unwrap();
            h.insert_source(s, |_, _, n| *n += 1).unwrap();
            drop(p);
        }
        "channel-all-senders-gone" => {
            let (tx, rx) = channel::<u8>();
            h.insert_source(rx, |_, _, _| {}).unwrap();
            drop(tx);
        }
        "empty-executor" => {
            let (ex, sched) = executor::<u8>().unwrap();
            h.insert_source(ex, |_, _, n| *n += 1).unwrap();
            keep.push(Box::new(sched));
        }
        "generic-level-not-ready" => {
            let (r, w) = sysx::pipe_pair();
            h.insert_source(Generic::new(r, Interest::READ, Mode::Level), |_, _, n| {
                *n += 1;
                Ok(PostAction::Continue)
            })
            .unwrap();
            keep_fds.push(w);
        }
        "generic-empty-interest-ready" => {
            let (r, w) = sysx::pipe_pair();
            sysx::write_fd(std::os::fd::AsRawFd::as_raw_fd(&w), b"x");
            h.insert_source(Generic::new(r, Interest::EMPTY, Mode::Level), |_, _, n| {
                *n += 1;
                Ok(PostAction::Continue)
            })
            .unwrap();
            keep_fds.push(w);
        }
        "fired-oneshot-still-ready" => {
            let (r, w) = sysx::pipe_pair();
            sysx::write_fd(std::os::fd::AsRawFd::as_raw_fd(&w), b"x");
            h.insert_source(Generic::new(r, Interest::READ, Mode::OneShot), |_, _, _| Ok(PostAction::Continue)).unwrap();
            keep_fds.push(w);
        }
        "self-removed-source-whose-slot-was-reused" => {
            // a readable level-triggered source removes itself in its callback and inserts another source, which
            // takes the vacated slot; the caller keeps the Dispatcher (and with it the fd) alive
            let (r, w) = sysx::pipe_pair();
            sysx::write_fd(std::os::fd::AsRawFd::as_raw_fd(&w), b"x");
            let h2 = h.clone();
            let tok: Rc<Cell<Option<calloop::RegistrationToken>>> = Rc::new(Cell::new(None));
            let tok2 = tok.clone();
            let disp = calloop::Dispatcher::new(Generic::new(r, Interest::READ, Mode::Level), move |_, _, _: &mut u32| {
                if let Some(t) = tok2.take() {
                    h2.remove(t);
                    let (p, s) = make_ping().unwrap();
                    h2.insert_source(s, |_, _, n| *n += 1).unwrap();
                    std::mem::forget(p);
                }
                Ok(PostAction::Continue)
            });
            tok.set(Some(h.register_dispatcher(disp.clone()).unwrap()));
            keep.push(Box::new(disp));
            keep_fds.push(w);
        }
        "disabled-sources-with-pending-readiness" => {
            let (p, s) = make_ping().unwrap();
            let t = h.insert_source(s, |_, _, n| *n += 1).unwrap();
            h.disable(&t).unwrap();
            p.ping();
            keep.push(Box::new(p));
            let (r, w) = sysx::pipe_pair();
            sysx::write_fd(std::os::fd::AsRawFd::as_raw_fd(&w), b"x");
            let t2 = h
                .insert_source(Generic::new(r, Interest::READ, Mode::Level), |_, _, n| {
                    *n += 1;
                    Ok(PostAction::Continue)
                })
                .unwrap();
            h.disable(&t2).unwrap();
            keep_fds.push(w);
            let t3 = h.insert_source(Timer::immediate(), |_, _, n| {
                *n += 1;
                TimeoutAction::Drop
            });
            h.disable(&t3.unwrap()).unwrap();
        }
        _ => {}
    }
    // warm-up: closed ping / channel remove themselves, the one-shot fires
    let mut warm = 0u32;
    // (the channel populations get exactly the dispatches their messages need: a wake-up the source makes up
    // for itself afterwards must show in the measured dispatch)
    let warm_n = match c.pop {
        "expired-timer-removed-before-any-dispatch" | "armed-timer-rearmed-into-the-past-then-removed" => 0,
        "sync-channel-drained-exactly-at-its-bound" | "rendezvous-channel-after-refused-try_send" => 1,
        "channel-1024-messages-delivered" => 2,
        _ => 3,
    };
    for _ in 0..warm_n {
        el.dispatch(Some(Duration::ZERO), &mut warm).expect("warm-up dispatch");
    }
    // populations that are set up after the warm-up dispatches
    let mut keep_idle = None;
    match c.pop {
        "idle-callback-queued" => {
            // an idle callback is neither an event nor a wake-up: it runs after the wait, it does not shorten it
            keep_idle = Some(h.insert_idle(|_| {}));
        }
        "cancelled-idle-callback-queued" => {
            h.insert_idle(|_| {}).cancel();
        }
        "adapter-waiting-for-readability-after-a-wait-for-writability" => {
            use std::future::Future;
            let wk = futures::task::noop_waker();
            let mut cx = std::task::Context::from_waker(&wk);
            if let Some(ad) = keep_async.first_mut() {
                let mut f = Box::pin(ad.readable());
                let _ = f.as_mut().poll(&mut cx);
            }
        }
        _ => {}
    }
    let fired = Rc::new(Cell::new(false));
    let f2 = fired.clone();
    let to = c.timeout.map(Duration::from_millis);
    // the timer, relative to the timeout (for None: relative to 40 ms)
    let base = c.timeout.unwrap_or(40).max(4);
    let now = Instant::now();
    let deadline: Option<Instant> = match c.timer {
        "none" => None,
        "earlier" => Some(now + Duration::from_millis(base) / 2),
        "equal" => Some(now + Duration::from_millis(c.timeout.unwrap_or(40))),
        "later" => Some(now + Duration::from_millis(base * 2 + 20)),
        "expired" => Some(now.checked_sub(Duration::from_millis(10)).unwrap_or(now)),
        "one-hour" => Some(now + Duration::from_secs(3600)),
        "earlier-rearmed-from-unrepresentable" => Some(now + Duration::from_millis(base) / 2),
        _ => None,
    };
    if c.timer == "earlier-rearmed-from-unrepresentable" {
        // inserted with a deadline that cannot be represented, then given a real one: set_deadline + update
        let f3 = fired.clone();
        let d = calloop::Dispatcher::new(Timer::from_duration(Duration::MAX), move |_, _, _: &mut u32| {
            f3.set(true);
            TimeoutAction::Drop
        });
        let t = h.register_dispatcher(d.clone()).unwrap();
        d.as_source_mut().set_deadline(deadline.unwrap());
        h.update(&t).unwrap();
        keep.push(Box::new(d));
    } else if c.timer == "unrepresentable" {
        h.insert_source(Timer::from_duration(Duration::MAX), |_, _, _| TimeoutAction::Drop).unwrap();
    } else if let Some(d) = deadline {
        h.insert_source(Timer::from_deadline(d), move |_, _, _| {
            f2.set(true);
            TimeoutAction::Drop
        })
        .unwrap();
    }
    // with None and nothing armed only an event ends the wait: a helper pings after 30 ms
    let needs_helper = to.is_none() && !matches!(c.timer, "earlier" | "equal" | "later" | "expired" | "earlier-rearmed-from-unrepresentable");
    let mut helper = None;
    if needs_helper {
        let (p, s) = make_ping().unwrap();
        h.insert_source(s, |_, _, n| *n += 100).unwrap();
        helper = Some(std::thread::spawn(move || {
            std::thread::sleep(Duration::from_millis(30));
            p.ping();
            p
        }));
    }
    // with None and a near timer nothing but that timer ends the wait: a rescuer pings long after the
    // deadline so that a timer that never fires shows as a measured oversleep instead of a hang
    let mut rescuer = None;
    if to.is_none() && !needs_helper {
        let (p, s) = make_ping().unwrap();
        h.insert_source(s, |_, _, n| *n += 1000).unwrap();
        let after = deadline.map(|d| d.saturating_duration_since(Instant::now())).unwrap_or_default() * 3 + Duration::from_millis(400);
        let stop = std::sync::Arc::new(std::sync::atomic::AtomicBool::new(false));
        let stop2 = stop.clone();
        rescuer = Some((
            std::thread::spawn(move || {
                let t = Instant::now();
                while t.elapsed() < after {
                    if stop2.load(std::sync::atomic::Ordering::SeqCst) {
                        return p;
                    }
                    std::thread::sleep(Duration::from_millis(2));
                }
                p.ping();
                p
            }),
            stop,
        ));
    }
    // signals that interrupt the wait (EINTR) are neither events nor wake-ups: at 30 %, 55 % and 75 % of the expected wait
    let mut interrupter = None;
    let stop_int = std::sync::Arc::new(std::sync::atomic::AtomicBool::new(false));
    INTERRUPTS.store(0, std::sync::atomic::Ordering::SeqCst);
    if interrupted {
        install_interrupt_handler();
        let expect = match (to, deadline) {
            _ if needs_helper => Duration::from_millis(30),
            (Some(t), Some(d)) => t.min(d.saturating_duration_since(Instant::now())),
            (Some(t), None) => t,
            (None, Some(d)) => d.saturating_duration_since(Instant::now()),
            (None, None) => Duration::from_millis(30),
        };
        let target = unsafe { libc::pthread_self() } as usize;
        let hook = if slow_hook { Duration::from_millis(HOOK_MS) } else { Duration::ZERO };
        let stop2 = stop_int.clone();
        interrupter = Some(std::thread::spawn(move || {
            let t = Instant::now();
            for f in [0.30, 0.55, 0.75] {
                let at = hook + expect.mul_f64(f);
                while t.elapsed() < at {
                    if stop2.load(std::sync::atomic::Ordering::SeqCst) {
                        return;
                    }
                    std::thread::sleep(Duration::from_micros(200));
                }
                if stop2.load(std::sync::atomic::Ordering::SeqCst) {
                    return;
                }
                unsafe {
                    libc::pthread_kill(target as libc::pthread_t, libc::SIGUSR2);
                }
            }
        }));
    }
    let mut cbs = 0u32;
    let t_before = Instant::now();
    let r = el.dispatch(to, &mut cbs);
    let elapsed = t_before.elapsed();
    stop_int.store(true, std::sync::atomic::Ordering::SeqCst);
    if let Some(i) = interrupter {
        let _ = i.join();
    }
    r.expect("dispatch");
    let keep_ping = helper.map(|h| h.join().unwrap());
    let keep_ping2 = rescuer.map(|(h, stop)| {
        stop.store(true, std::sync::atomic::Ordering::SeqCst);
        h.join().unwrap()
    });
    let until_deadline = deadline.map(|d| d.saturating_duration_since(t_before));
    let limit = if needs_helper {
        Some(Duration::from_millis(30))
    } else {
        match (to, until_deadline) {
            (Some(t), Some(d)) => Some(t.min(d)),
            (Some(t), None) => Some(t),
            (None, Some(d)) => Some(d),
            (None, None) => None,
        }
    };
    let timer_is_limit = match (to, until_deadline) {
        _ if needs_helper => None,
        (_, None) => None,
        (None, Some(_)) => Some(true),
        (Some(t), Some(d)) => {
            if c.timer == "equal" {
                None
            } else {
                Some(d < t)
            }
        }
    };
    drop(keep_ping);
    drop(keep_ping2);
    drop(keep_idle);
    drop(keep_async);
    drop(keep);
    drop(keep_fds);
    Measured {
        elapsed,
        limit,
        timer_fired: fired.get(),
        timer_is_limit,
        other_callbacks: cbs,
        helper_used: needs_helper,
        until_deadline,
        hook: if slow_hook { Duration::from_millis(HOOK_MS) } else { Duration::ZERO },
        interrupts: INTERRUPTS.load(std::sync::atomic::Ordering::SeqCst),
    }
}

fn main() {
    let args = Args::parse();
    install_panic_hook();
    let t0 = Instant::now();
    let mut res = RunResult::new(&args, "wait");
    let mut cells = Vec::new();
    for to in TIMEOUTS {
        for tm in TIMERS {
            for pop in POPS {
                cells.push(Cell_ { timeout: to, timer: tm, pop });
            }
        }
    }
    let only: Option<(Option<u64>, String, String)> = args.replay.as_ref().map(|p| {
        let v: serde_json::Value = serde_json::from_str(&std::fs::read_to_string(p).expect("replay")).expect("json");
        (v["replay"]["timeout_ms"].as_u64(), v["replay"]["timer"].as_str().unwrap().to_string(), v["replay"]["population"].as_str().unwrap().to_string())
    });
    let rounds = if args.thorough() { 5 } else { 1 };
    for round in 0..rounds {
        for (i, c) in cells.iter().enumerate() {
            if let Some((to, tm, pop)) = &only {
                if c.timeout != *to || c.timer != tm || c.pop != pop {
                    continue;
                }
            } else if (i as u64 + round) % args.nshards != args.shard {
                continue;
            }
            mark_case(&args.out, i as u64, "wait");
            let name = format!("timeout={:?} timer={} population={}", c.timeout, c.timer, c.pop);
            let replay = json!({"engine": "wait", "timeout_ms": c.timeout, "timer": c.timer, "population": c.pop});
            let mut upper_fail = 0;
            let mut tries = 0;
            loop {
                tries += 1;
                let m = measure(c);
                res.evaluations += 1;
                res.nontrivial += 1;
                res.classes.insert(fnv(&[c.timeout.unwrap_or(9999), fnv_str(c.timer), fnv_str(c.pop)]));
                if only.is_some() {
                    println!("{}: elapsed {:?}, limit {:?}, timer fired {}, other callbacks {}", name, m.elapsed, m.limit, m.timer_fired, m.other_callbacks);
                }
                if m.interrupts > 0 {
                    res.cov("wait-interrupted-by-a-signal", 1);
                    *res.events.entry("signal_interruptions".into()).or_insert(0) += m.interrupts as u64;
                }
                // upper bound: generous, three consecutive failures. The time the user's own before_sleep hook takes is
                // the user's: a timeout runs from the start of the wait, a timer deadline is absolute - a deadline that is
                // the limit must not be overslept by (a good part of) the hook's duration
                let mut ceiling = match m.limit {
                    Some(l) => l + m.hook + Duration::from_millis(150).max(l * 2),
                    None => Duration::from_secs(5),
                };
                if !m.hook.is_zero() && m.timer_is_limit == Some(true) && !m.helper_used {
                    if let Some(l) = m.limit {
                        let slack = m.hook.min(l).mul_f64(0.6).max(Duration::from_millis(8));
                        ceiling = l.max(m.hook) + slack;
                        res.cov("deadline-limit-with-slow-hook", 1);
                    }
                }
                let mut v = |clause: &str, culprit: &str, detail: String| {
                    res.violations.push(Violation { prop: args.prop.clone(), clause: clause.into(), culprit: culprit.into(), detail: format!("{} [{}]", detail, name), replay: replay.clone() });
                };
                // lower bound: exact
                if let Some(l) = m.limit {
                    let floor = (l.mul_f64(0.9)).saturating_sub(Duration::from_millis(1));
                    if m.elapsed < floor {
                        v("no_spin", &format!("returned-early-{}", c.pop), format!("dispatch returned after {:?}, it should have waited {:?}", m.elapsed, l));
                    }
                }
                // idle populations never produce a callback (helper ping excepted)
                let expected_other = if m.helper_used { 100 } else { 0 };
                if m.other_callbacks != expected_other {
                    v("no_spin", &format!("idle-source-invoked-{}", c.pop), format!("{} callbacks of idle sources ran (expected {})", m.other_callbacks, expected_other));
                }
                match m.timer_is_limit {
                    Some(true) if !m.timer_fired => v("fires_limit_timer", "limit-timer-not-fired", format!("the timer was the limit ({:?}) but did not fire in that dispatch (elapsed {:?})", m.limit, m.elapsed)),
                    Some(false) if m.timer_fired && c.timer != "expired" => {
                        // a timer later than the timeout may fire only if the dispatch really lasted that long
                        if (c.timer == "later" || c.timer == "one-hour") && m.until_deadline.map(|d| m.elapsed < d).unwrap_or(true) {
                            v("no_oversleep", "later-timer-fired", format!("a timer later than the timeout fired (elapsed {:?})", m.elapsed));
                        }
                    }
                    _ => {}
                }
                if m.elapsed > ceiling {
                    upper_fail += 1;
                    if upper_fail >= 3 {
                        let cl = if c.timeout == Some(0) { "zero_never_blocks" } else { "no_oversleep" };
                        v(cl, &format!("overslept-{}", c.pop), format!("dispatch lasted {:?} three times in a row, limit {:?}", m.elapsed, m.limit));
                        break;
                    }
                    if tries < 3 {
                        continue;
                    }
                    res.inconclusive.push(format!("{}: {} of {} tries exceeded the upper bound ({:?} > {:?})", name, upper_fail, tries, m.elapsed, ceiling));
                }
                break;
            }
            res.cov(&format!("timeout:{:?}", c.timeout), 1);
            res.cov(&format!("timer:{}", c.timer), 1);
            res.cov(&format!("population:{}", c.pop), 1);
            if res.samples.len() < 2 {
                res.samples.push(json!({"cell": name}));
            }
        }
    }
    // keep one witness per signature
    let mut seen = std::collections::BTreeSet::new();
    res.violations.retain(|v| seen.insert(v.signature()));
    res.exhaustive = true;
    res.notes.push(format!("grid of {} cells ({} timeouts x {} timer placements x {} idle populations), {} round(s)", cells.len(), TIMEOUTS.len(), TIMERS.len(), POPS.len(), rounds));
    res.wall_s = t0.elapsed().as_secs_f64();
    res.write(&args.out);
}
