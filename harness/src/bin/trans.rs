//! C18: TransientSource keeps its child's registration in step with its state.
//!
//! (a) `mock`: exhaustive enumeration of all protocol-conforming sequences up to length n
//!     over {child returns Continue/Reregister/Disable/Remove, remove(), replace(new), map(),
//!     parent register/reregister/unregister}, from `From<T>` and `Default`, against an
//!     instrumented mock child, calling the wrapper's EventSource methods directly (the
//!     `Poll` is borrowed from a real loop through a driver source).
//! (b) `real`: the same sequences with real children (Generic over an eventfd, Timer)
//!     inside a real loop, through the public loop API, with the kernel's epoll table and
//!     the timer-heap length as witnesses.

use calloop::generic::Generic;
use calloop::timer::{TimeoutAction, Timer};
use calloop::transient::TransientSource;
use calloop::{
    Dispatcher, EventLoop, EventSource, Interest, Mode, Poll, PostAction, Readiness, Token, TokenFactory,
};
use cverif::*;
use serde_json::json;
use std::cell::RefCell;
use std::os::fd::{AsRawFd, OwnedFd};
use std::rc::Rc;
use std::time::{Duration, Instant};

#[derive(Clone, Copy, Debug, PartialEq, Eq, serde::Serialize, serde::Deserialize)]
enum Op {
    EvContinue,
    EvReregister,
    EvDisable,
    EvRemove,
    Remove,
    Replace,
    Map,
    Register,
    Reregister,
    Unregister,
}
const OPS: [Op; 10] = [
    Op::EvContinue,
    Op::EvReregister,
    Op::EvDisable,
    Op::EvRemove,
    Op::Remove,
    Op::Replace,
    Op::Map,
    Op::Register,
    Op::Reregister,
    Op::Unregister,
];

// ------------------------------------------------------------------ mock child

#[derive(Default, Debug)]
struct MockState {
    registered: bool,
    dropped: bool,
    reg_calls: u32,
    rereg_calls: u32,
    unreg_calls: u32,
    token: Option<Token>,
}

#[derive(Default)]
struct Shared {
    mocks: Vec<MockState>,
    /// violations found by the mocks themselves: (clause, culprit, detail)
    alarms: Vec<(String, String, String)>,
    /// action the next invoked child returns
    script: Option<PostAction>,
    invoked: Vec<usize>,
    /// children whose process_events was called at all
    visited: Vec<usize>,
}

struct Mock {
    id: usize,
    sh: Rc<RefCell<Shared>>,
}

impl Mock {
    fn new(sh: &Rc<RefCell<Shared>>) -> Mock {
        let id = sh.borrow().mocks.len();
        sh.borrow_mut().mocks.push(MockState::default());
        Mock { id, sh: sh.clone() }
    }
}

// `TransientSource<T>: Default` is derived and therefore asks for `T: Default`, although an empty
// wrapper never builds a child
impl Default for Mock {
    fn default() -> Mock {
        unreachable!("an empty TransientSource does not build a child")
    }
}

impl Drop for Mock {
    fn drop(&mut self) {
        let mut sh = self.sh.borrow_mut();
        let id = self.id;
        if sh.mocks[id].registered {
            sh.alarms.push((
                "unregistered_before_drop".into(),
                "child-dropped-while-registered".into(),
                format!("child #{} dropped while still registered", id),
            ));
        }
        sh.mocks[id].dropped = true;
    }
}

impl EventSource for Mock {
    type Event = usize;
    type Metadata = ();
    type Ret = ();
    type Error = std::io::Error;
    fn process_events<F>(&mut self, _r: Readiness, token: Token, mut cb: F) -> Result<PostAction, Self::Error>
    where
        F: FnMut(usize, &mut ()),
    {
        let act = {
            let mut sh = self.sh.borrow_mut();
            let id = self.id;
            sh.visited.push(id);
            if sh.mocks[self.id].token != Some(token) {
                return Ok(PostAction::Continue);
            }
            sh.invoked.push(self.id);
            sh.script.take().unwrap_or(PostAction::Continue)
        };
        cb(self.id, &mut ());
        Ok(act)
    }
    fn register(&mut self, _p: &mut Poll, f: &mut TokenFactory) -> calloop::Result<()> {
        let mut sh = self.sh.borrow_mut();
        let id = self.id;
        if sh.mocks[id].registered {
            sh.alarms.push(("no_double_register".into(), "register-while-registered".into(), format!("child #{} registered while registered", id)));
        }
        // only the current child is ever registered: a replaced one is taken out before its successor goes in
        if let Some(other) = sh.mocks.iter().position(|m| m.registered) {
            if other != id {
                sh.alarms.push(("registered_iff_current_kept".into(), "child-registered-while-its-predecessor-still-is".into(), format!("child #{} registered while child #{} is still registered", id, other)));
            }
        }
        sh.mocks[id].registered = true;
        sh.mocks[id].reg_calls += 1;
        sh.mocks[id].token = Some(f.token());
        Ok(())
    }
    fn reregister(&mut self, _p: &mut Poll, f: &mut TokenFactory) -> calloop::Result<()> {
        let mut sh = self.sh.borrow_mut();
        let id = self.id;
        if !sh.mocks[id].registered {
            sh.alarms.push(("no_double_unregister".into(), "reregister-while-unregistered".into(), format!("child #{} re-registered while not registered", id)));
        }
        sh.mocks[id].rereg_calls += 1;
        sh.mocks[id].token = Some(f.token());
        Ok(())
    }
    fn unregister(&mut self, _p: &mut Poll) -> calloop::Result<()> {
        let mut sh = self.sh.borrow_mut();
        let id = self.id;
        if !sh.mocks[id].registered {
            sh.alarms.push(("no_double_unregister".into(), "unregister-while-unregistered".into(), format!("child #{} unregistered while not registered", id)));
        }
        sh.mocks[id].registered = false;
        sh.mocks[id].unreg_calls += 1;
        sh.mocks[id].token = None;
        Ok(())
    }
}

// ------------------------------------------------------------------ protocol model

#[derive(Clone, Copy, Debug, PartialEq, Eq)]
enum CMode {
    Kept,
    Disabled,
}

#[derive(Clone, Debug)]
struct Model {
    cur: Option<usize>,
    mode: CMode,
    preg: bool,
    dirty: bool,
    /// the wrapper is empty (state None): nothing inside, replace() has no effect
    empty: bool,
    removal_pending: bool,
    /// (enumeration only) a structural change is pending: the wrapper is not in its Keep state
    structural: bool,
    nchildren: usize,
}

impl Model {
    fn new(from_child: bool) -> Model {
        Model {
            cur: if from_child { Some(0) } else { None },
            mode: CMode::Kept,
            preg: false,
            dirty: false,
            empty: !from_child,
            removal_pending: false,
            structural: false,
            nchildren: if from_child { 1 } else { 0 },
        }
    }
    /// may `op` come next according to the documented protocol?
    fn allowed(&self, op: Op, max_children: usize) -> bool {
        match op {
            Op::EvContinue | Op::EvReregister | Op::EvDisable | Op::EvRemove => self.preg,
            Op::Remove | Op::Map => true,
            // replace() on an empty wrapper silently drops the new source; whether that is
            // right is not part of the statement, so it is not generated
            Op::Replace => !self.empty && self.nchildren < max_children,
            Op::Register => !self.preg,
            Op::Reregister => self.preg,
            // (a parent may be unregistered - disabled or removed by the loop - with a change still pending: it
            // answers Disable/Remove itself in the process_events call in which the child asked for a change)
            Op::Unregister => self.preg,
        }
    }
}

struct MockRun<'a> {
    seq: &'a [Op],
    from_child: bool,
}

struct Outcome {
    alarms: Vec<(String, String, String, usize)>,
    forwarded: u32,
    changes: u32,
    class: u64,
}

fn run_mock(poll: &mut Poll, run: &MockRun, _max_children: usize) -> Outcome {
    let sh = Rc::new(RefCell::new(Shared::default()));
    let mut model = Model::new(run.from_child);
    let mut t: TransientSource<Mock> = if run.from_child { Mock::new(&sh).into() } else { Default::default() };
    let mut alarms: Vec<(String, String, String, usize)> = Vec::new();
    let mut forwarded = 0;
    let mut changes = 0;
    let mut versions = 0u16;
    let mut class_parts: Vec<u64> = vec![run.from_child as u64];
    // last token any child was given: events for an unregistered/absent child reuse it
    let mut last_token: Option<Token> = None;
    for (step, op) in run.seq.iter().enumerate() {
        if !alarms.is_empty() {
            // the first step that raises an alarm ends the execution: later symptoms would be cascades
            break;
        }
        // whether the wrapper is empty is observed through its public `is_none()`, not predicted
        model.empty = t.is_none();
        if !model.allowed(*op, usize::MAX) {
            // the observed behaviour left the path the enumeration assumed; the op is not
            // protocol-conforming here, so it is not executed
            continue;
        }
        let mut push = |c: &str, k: &str, d: String| alarms.push((c.into(), k.into(), d, step));
        match *op {
            Op::EvContinue | Op::EvReregister | Op::EvDisable | Op::EvRemove => {
                let act = match *op {
                    Op::EvContinue => PostAction::Continue,
                    Op::EvReregister => PostAction::Reregister,
                    Op::EvDisable => PostAction::Disable,
                    _ => PostAction::Remove,
                };
                // the event carries the token of the current child if it has one, else the last one handed out
                let tok = model
                    .cur
                    .and_then(|c| sh.borrow().mocks[c].token)
                    .or(last_token)
                    .unwrap_or_else(|| calloop::verif::token_factory(0, 0).token());
                sh.borrow_mut().script = Some(act);
                sh.borrow_mut().invoked.clear();
                sh.borrow_mut().visited.clear();
                let mut cb_ids = Vec::new();
                let ret = t.process_events(Readiness { readable: true, writable: false, error: false }, tok, |id, _| cb_ids.push(id));
                sh.borrow_mut().script = None;
                let invoked = sh.borrow().invoked.clone();
                let visited = sh.borrow().visited.clone();
                for id in &visited {
                    // an event is only ever handed to the current, kept, registered child
                    let reg = sh.borrow().mocks[*id].registered;
                    let ok = model.preg && model.cur == Some(*id) && model.mode == CMode::Kept && !model.removal_pending && reg;
                    if !ok && !invoked.contains(id) {
                        push(
                            "only_current_forwards",
                            "event-handed-to-child-that-is-not-current-kept-and-registered",
                            format!("process_events of child #{} was called (registered {}) while the current kept child is {:?} ({:?}, parent registered {})", id, reg, model.cur, model.mode, model.preg),
                        );
                    }
                }
                match &ret {
                    Ok(PostAction::Continue) | Ok(PostAction::Reregister) => {}
                    Ok(other) => push("returns_continue_or_reregister", "other-action", format!("process_events returned {:?}", other)),
                    Err(e) => push("no_err", "process-events-failed", format!("process_events failed: {}", e)),
                }
                for id in &invoked {
                    forwarded += 1;
                    let ok = model.preg && model.cur == Some(*id) && model.mode == CMode::Kept && !model.removal_pending;
                    if !ok {
                        push(
                            "only_current_forwards",
                            "event-forwarded-to-non-current-child",
                            format!("event forwarded to child #{} while the current kept child is {:?} ({:?}, parent registered {})", id, model.cur, model.mode, model.preg),
                        );
                    }
                }
                if model.empty && (!invoked.is_empty() || !cb_ids.is_empty() || !matches!(ret, Ok(PostAction::Continue))) {
                    push("empty_is_noop", "empty-wrapper-acted", format!("empty wrapper: invoked {:?}, returned {:?}", invoked, ret.as_ref().ok()));
                }
                if let Some(id) = invoked.first() {
                    if model.cur == Some(*id) {
                        match act {
                            PostAction::Continue => {}
                            PostAction::Reregister => {
                                model.dirty = true;
                                changes += 1;
                            }
                            PostAction::Disable => {
                                model.mode = CMode::Disabled;
                                model.dirty = true;
                                changes += 1;
                            }
                            PostAction::Remove => {
                                model.cur = None;
                                model.removal_pending = true;
                                model.dirty = true;
                                changes += 1;
                            }
                        }
                        // a change the wrapper does not announce gets the registration out of step
                        if act != PostAction::Continue && !matches!(ret, Ok(PostAction::Reregister)) {
                            push("returns_continue_or_reregister", "change-not-announced", format!("child returned {:?} but the wrapper returned {:?}", act, ret.as_ref().ok()));
                        }
                    }
                }
            }
            Op::Remove => {
                t.remove();
                if !model.empty {
                    if model.cur.is_some() || !model.removal_pending {
                        changes += 1;
                    }
                    model.cur = None;
                    model.removal_pending = true;
                    if model.preg {
                        model.dirty = true;
                    }
                }
            }
            Op::Replace => {
                let m = Mock::new(&sh);
                let id = m.id;
                t.replace(m);
                model.nchildren += 1;
                model.cur = Some(id);
                model.mode = CMode::Kept;
                model.removal_pending = false;
                changes += 1;
                if model.preg {
                    model.dirty = true;
                }
            }
            Op::Map => {
                let before: Vec<bool> = sh.borrow().mocks.iter().map(|m| m.registered).collect();
                let got = t.map(|m| m.id);
                let after: Vec<bool> = sh.borrow().mocks.iter().map(|m| m.registered).collect();
                if before != after {
                    push("map_is_pure", "map-changed-registration", "map() changed a registration".into());
                }
                if let Some(id) = got {
                    if model.cur != Some(id) {
                        push("only_current_forwards", "map-reached-non-current-child", format!("map() reached child #{} while the current child is {:?}", id, model.cur));
                    }
                }
            }
            Op::Register | Op::Reregister | Op::Unregister => {
                versions = versions.wrapping_add(1);
                let mut f = calloop::verif::token_factory(3, versions);
                let r = match *op {
                    Op::Register => t.register(poll, &mut f),
                    Op::Reregister => t.reregister(poll, &mut f),
                    _ => t.unregister(poll),
                };
                if let Err(e) = r {
                    push("no_err", "registration-call-failed", format!("{:?} failed: {}", op, e));
                }
                let was_disabled = model.mode == CMode::Disabled;
                match *op {
                    Op::Register => model.preg = true,
                    Op::Reregister => {}
                    _ => model.preg = false,
                }
                model.dirty = false;
                if model.removal_pending {
                    model.removal_pending = false;
                    if model.cur.is_none() {
                        model.empty = true;
                    }
                }
                // quiescent point: the registration of every child ever created is decided
                let n = sh.borrow().mocks.len();
                for id in 0..n {
                    let (reg, dropped) = {
                        let s = sh.borrow();
                        (s.mocks[id].registered, s.mocks[id].dropped)
                    };
                    let is_cur = model.cur == Some(id);
                    if is_cur && was_disabled && *op == Op::Register {
                        // parent registered again with a disabled child: the statement does not say
                        // whether that re-enables it; follow what is observed
                        if reg {
                            model.mode = CMode::Kept;
                        }
                        continue;
                    }
                    let want = model.preg && is_cur && model.mode == CMode::Kept;
                    if reg != want {
                        let culprit = if reg { "stale-child-still-registered" } else { "current-child-not-registered" };
                        push(
                            "registered_iff_current_kept",
                            culprit,
                            format!("after {:?}: child #{} registered={} but expected {} (current {:?}, {:?}, parent registered {})", op, id, reg, want, model.cur, model.mode, model.preg),
                        );
                    }
                    if is_cur && dropped {
                        push("registered_iff_current_kept", "current-child-dropped", format!("current child #{} was dropped", id));
                    }
                }
                if let Some(c) = model.cur {
                    if let Some(tk) = sh.borrow().mocks[c].token {
                        last_token = Some(tk);
                    }
                }
            }
        }
        drop(push);
        for (c, k, d) in sh.borrow_mut().alarms.drain(..) {
            alarms.push((c, k, d, step));
        }
        class_parts.push(*op as u64);
    }
    // the end of the sequence drops the wrapper with whatever it still holds: that is the
    // harness' doing, not a step of the protocol, so it raises nothing
    for m in sh.borrow_mut().mocks.iter_mut() {
        m.registered = false;
    }
    drop(t);
    sh.borrow_mut().alarms.clear();
    Outcome { alarms, forwarded, changes, class: fnv(&class_parts) }
}

/// enumerate all protocol-conforming sequences of exactly `len` ops, call `f` on each
fn enumerate(len: usize, from_child: bool, max_children: usize, f: &mut dyn FnMut(&[Op])) {
    fn rec(seq: &mut Vec<Op>, model: &Model, len: usize, maxc: usize, f: &mut dyn FnMut(&[Op])) {
        if seq.len() == len {
            f(seq);
            return;
        }
        for op in OPS {
            if !model.allowed(op, maxc) {
                continue;
            }
            // advance the *protocol* model optimistically (events are assumed to reach the current child)
            let mut m = model.clone();
            match op {
                Op::EvContinue | Op::Map => {}
                Op::EvReregister => {
                    if m.cur.is_some() && m.mode == CMode::Kept && !m.structural {
                        m.dirty = true
                    }
                }
                Op::EvDisable => {
                    if m.cur.is_some() && m.mode == CMode::Kept && !m.structural {
                        m.structural = true;
                        m.mode = CMode::Disabled;
                        m.dirty = true;
                    }
                }
                Op::EvRemove => {
                    if m.cur.is_some() && m.mode == CMode::Kept && !m.structural {
                        m.structural = true;
                        m.cur = None;
                        m.removal_pending = true;
                        m.dirty = true;
                    }
                }
                Op::Remove => {
                    if !m.empty {
                        m.cur = None;
                        m.removal_pending = true;
                        m.structural = true;
                        if m.preg {
                            m.dirty = true
                        }
                    }
                }
                Op::Replace => {
                    m.structural = true;
                    m.nchildren += 1;
                    m.cur = Some(m.nchildren - 1);
                    m.mode = CMode::Kept;
                    m.removal_pending = false;
                    if m.preg {
                        m.dirty = true
                    }
                }
                Op::Register => {
                    m.preg = true;
                    m.dirty = false;
                    m.structural = false;
                    m.mode = CMode::Kept;
                    if m.removal_pending {
                        m.removal_pending = false;
                        m.empty = m.cur.is_none();
                    }
                }
                Op::Reregister => {
                    m.dirty = false;
                    m.structural = false;
                    if m.removal_pending {
                        m.removal_pending = false;
                        m.empty = m.cur.is_none();
                    }
                }
                Op::Unregister => {
                    m.preg = false;
                    m.dirty = false;
                    m.structural = false;
                    if m.removal_pending {
                        m.removal_pending = false;
                        m.empty = m.cur.is_none();
                    }
                }
            }
            seq.push(op);
            rec(seq, &m, len, maxc, f);
            seq.pop();
        }
    }
    let mut seq = Vec::new();
    rec(&mut seq, &Model::new(from_child), len, max_children, f);
}

// ------------------------------------------------------------------ driver source (lends its Poll)

struct Driver<F: FnMut(&mut Poll)> {
    f: Option<F>,
}
impl<F: FnMut(&mut Poll)> EventSource for Driver<F> {
    type Event = ();
    type Metadata = ();
    type Ret = ();
    type Error = std::io::Error;
    fn process_events<C>(&mut self, _: Readiness, _: Token, _: C) -> Result<PostAction, Self::Error>
    where
        C: FnMut((), &mut ()),
    {
        Ok(PostAction::Continue)
    }
    fn register(&mut self, p: &mut Poll, _: &mut TokenFactory) -> calloop::Result<()> {
        if let Some(mut f) = self.f.take() {
            f(p);
        }
        Ok(())
    }
    fn reregister(&mut self, _: &mut Poll, _: &mut TokenFactory) -> calloop::Result<()> {
        Ok(())
    }
    fn unregister(&mut self, _: &mut Poll) -> calloop::Result<()> {
        Ok(())
    }
}

fn with_poll(f: impl FnMut(&mut Poll)) {
    let el: EventLoop<()> = EventLoop::try_new().expect("loop");
    let _ = el.handle().insert_source(Driver { f: Some(f) }, |_, _, _| {});
}

// ------------------------------------------------------------------ real children through a real loop

/// what the single child of the composite is
#[derive(Clone, Copy, Debug, PartialEq, Eq, serde::Serialize, serde::Deserialize)]
enum ChildKind {
    Fd,
    Timer,
}

enum RealChild {
    Fd(Generic<OwnedFd>),
    Timer(Timer),
}

struct RealShared {
    script: Option<PostAction>,
    invoked: Vec<usize>,
    fds: Vec<i32>, // raw fd per child id (-1 for timers)
}

struct Real {
    id: usize,
    c: RealChild,
    sh: Rc<RefCell<RealShared>>,
}

impl Default for Real {
    fn default() -> Real {
        unreachable!("an empty TransientSource does not build a child")
    }
}

impl EventSource for Real {
    type Event = usize;
    type Metadata = ();
    type Ret = ();
    type Error = std::io::Error;
    fn process_events<F>(&mut self, r: Readiness, token: Token, mut cb: F) -> Result<PostAction, Self::Error>
    where
        F: FnMut(usize, &mut ()),
    {
        let id = self.id;
        let sh = self.sh.clone();
        match &mut self.c {
            RealChild::Fd(g) => g.process_events(r, token, |_, fd| {
                sysx::drain_fd(fd.as_raw_fd());
                sh.borrow_mut().invoked.push(id);
                cb(id, &mut ());
                Ok(sh.borrow_mut().script.take().unwrap_or(PostAction::Continue))
            }),
            RealChild::Timer(t) => {
                let mut wanted = PostAction::Continue;
                let act = t.process_events(r, token, |_, _| {
                    sh.borrow_mut().invoked.push(id);
                    cb(id, &mut ());
                    wanted = sh.borrow_mut().script.take().unwrap_or(PostAction::Continue);
                    // the timer stays armed far in the future unless it is asked to go
                    if wanted == PostAction::Remove {
                        TimeoutAction::Drop
                    } else {
                        TimeoutAction::ToDuration(Duration::from_secs(3600))
                    }
                })?;
                Ok(if wanted == PostAction::Continue { act } else { wanted })
            }
        }
    }
    fn register(&mut self, p: &mut Poll, f: &mut TokenFactory) -> calloop::Result<()> {
        match &mut self.c {
            RealChild::Fd(g) => g.register(p, f),
            RealChild::Timer(t) => t.register(p, f),
        }
    }
    fn reregister(&mut self, p: &mut Poll, f: &mut TokenFactory) -> calloop::Result<()> {
        match &mut self.c {
            RealChild::Fd(g) => g.reregister(p, f),
            RealChild::Timer(t) => t.reregister(p, f),
        }
    }
    fn unregister(&mut self, p: &mut Poll) -> calloop::Result<()> {
        match &mut self.c {
            RealChild::Fd(g) => g.unregister(p),
            RealChild::Timer(t) => t.unregister(p),
        }
    }
}

/// the high-level parent source holding one transient child
struct Parent {
    t: TransientSource<Real>,
}
impl EventSource for Parent {
    type Event = usize;
    type Metadata = ();
    type Ret = ();
    type Error = std::io::Error;
    fn process_events<F>(&mut self, r: Readiness, token: Token, cb: F) -> Result<PostAction, Self::Error>
    where
        F: FnMut(usize, &mut ()),
    {
        self.t.process_events(r, token, cb)
    }
    fn register(&mut self, p: &mut Poll, f: &mut TokenFactory) -> calloop::Result<()> {
        self.t.register(p, f)
    }
    fn reregister(&mut self, p: &mut Poll, f: &mut TokenFactory) -> calloop::Result<()> {
        self.t.reregister(p, f)
    }
    fn unregister(&mut self, p: &mut Poll) -> calloop::Result<()> {
        self.t.unregister(p)
    }
}

fn new_real(kind: ChildKind, sh: &Rc<RefCell<RealShared>>) -> Real {
    let id = sh.borrow().fds.len();
    match kind {
        ChildKind::Fd => {
            let fd = sysx::eventfd_new();
            sh.borrow_mut().fds.push(fd.as_raw_fd());
            Real { id, c: RealChild::Fd(Generic::new(fd, Interest::READ, Mode::Level)), sh: sh.clone() }
        }
        ChildKind::Timer => {
            sh.borrow_mut().fds.push(-1);
            Real { id, c: RealChild::Timer(Timer::from_deadline(Instant::now())), sh: sh.clone() }
        }
    }
}

/// run one sequence with a real child inside a real loop; returns alarms
fn run_real(seq: &[Op], from_child: bool, kind: ChildKind, _max_children: usize) -> Outcome {
    let mut alarms: Vec<(String, String, String, usize)> = Vec::new();
    let mut el: EventLoop<()> = EventLoop::try_new().expect("loop");
    let h = el.handle();
    let epfd = el.as_raw_fd();
    let sh = Rc::new(RefCell::new(RealShared { script: None, invoked: vec![], fds: vec![] }));
    let mut model = Model::new(from_child);
    let t: TransientSource<Real> = if from_child { new_real(kind, &sh).into() } else { Default::default() };
    let disp: Dispatcher<'static, Parent, ()> = Dispatcher::new(Parent { t }, |_, _, _| {});
    let mut token = None;
    let mut forwarded = 0;
    let mut changes = 0;
    let mut class_parts: Vec<u64> = vec![from_child as u64, kind as u64 + 10];
    for (step, op) in seq.iter().enumerate() {
        if !alarms.is_empty() {
            break;
        }
        model.empty = disp.as_source_ref().t.is_none();
        if !model.allowed(*op, usize::MAX) {
            continue;
        }
        let mut push = |c: &str, k: &str, d: String| alarms.push((c.into(), k.into(), d, step));
        match *op {
            Op::EvContinue | Op::EvReregister | Op::EvDisable | Op::EvRemove => {
                let act = match *op {
                    Op::EvContinue => PostAction::Continue,
                    Op::EvReregister => PostAction::Reregister,
                    Op::EvDisable => PostAction::Disable,
                    _ => PostAction::Remove,
                };
                // make the current child ready (if it can be): write its eventfd / re-arm its timer now
                let cur = model.cur;
                if let Some(c) = cur {
                    let fd = sh.borrow().fds[c];
                    if fd >= 0 {
                        sysx::eventfd_add(fd, 1);
                    } else if model.mode == CMode::Kept && !model.dirty {
                        // re-arm the timer child to fire now: set_deadline + update is a re-registration
                        // of an unchanged wrapper, which the protocol always allows
                        let _ = disp.as_source_mut().t.map(|r| {
                            if let RealChild::Timer(t) = &mut r.c {
                                t.set_deadline(Instant::now());
                            }
                        });
                        if let Some(tk) = &token {
                            if let Err(e) = h.update(tk) {
                                push("no_err", "update-failed", format!("update (timer re-arm) failed: {}", e));
                            }
                        }
                    }
                }
                sh.borrow_mut().script = Some(act);
                sh.borrow_mut().invoked.clear();
                let r = el.dispatch(Duration::ZERO, &mut ());
                sh.borrow_mut().script = None;
                if let Err(e) = r {
                    push("no_err", "dispatch-failed", format!("dispatch failed: {}", e));
                }
                let invoked = sh.borrow().invoked.clone();
                for id in &invoked {
                    forwarded += 1;
                    if !(model.preg && model.cur == Some(*id) && model.mode == CMode::Kept && !model.removal_pending) {
                        push("only_current_forwards", "event-forwarded-to-non-current-child", format!("event forwarded to child #{} while current kept child is {:?} ({:?})", id, model.cur, model.mode));
                    }
                }
                if let Some(id) = invoked.first() {
                    if model.cur == Some(*id) {
                        // the loop applies the announced re-registration itself: quiescent again afterwards
                        match act {
                            PostAction::Continue => {}
                            PostAction::Reregister => changes += 1,
                            PostAction::Disable => {
                                model.mode = CMode::Disabled;
                                changes += 1;
                            }
                            PostAction::Remove => {
                                model.cur = None;
                                model.empty = true;
                                changes += 1;
                            }
                        }
                    }
                }
                // drain what a non-forwarded event left behind so that level-triggered fds do not spin later
                if invoked.is_empty() {
                    if let Some(c) = cur {
                        let fd = sh.borrow().fds[c];
                        if fd >= 0 {
                            sysx::drain_fd(fd);
                        }
                    }
                }
                if model.dirty {
                    // an event arrived between a change and its re-registration; the loop re-registers only
                    // if the wrapper asked for it, so the pending change may still be outstanding
                }
            }
            Op::Remove => {
                disp.as_source_mut().t.remove();
                if !model.empty {
                    changes += 1;
                    model.cur = None;
                    model.removal_pending = true;
                    if model.preg {
                        model.dirty = true;
                    }
                }
            }
            Op::Replace => {
                let r = new_real(kind, &sh);
                let id = r.id;
                disp.as_source_mut().t.replace(r);
                model.nchildren += 1;
                model.cur = Some(id);
                model.mode = CMode::Kept;
                model.removal_pending = false;
                changes += 1;
                if model.preg {
                    model.dirty = true;
                }
            }
            Op::Map => {
                let got = disp.as_source_mut().t.map(|r| r.id);
                if let Some(id) = got {
                    if model.cur != Some(id) {
                        push("only_current_forwards", "map-reached-non-current-child", format!("map() reached child #{} while the current child is {:?}", id, model.cur));
                    }
                }
            }
            Op::Register | Op::Reregister | Op::Unregister => {
                let was_disabled = model.mode == CMode::Disabled;
                let r: Result<(), String> = match *op {
                    Op::Register => match &token {
                        None => h.register_dispatcher(disp.clone()).map(|t| token = Some(t)).map_err(|e| e.to_string()),
                        Some(tk) => h.enable(tk).map_err(|e| e.to_string()),
                    },
                    Op::Reregister => h.update(token.as_ref().unwrap()).map_err(|e| e.to_string()),
                    _ => h.disable(token.as_ref().unwrap()).map_err(|e| e.to_string()),
                };
                if let Err(e) = r {
                    push("no_err", "registration-call-failed", format!("{:?} failed: {}", op, e));
                }
                match *op {
                    Op::Register => model.preg = true,
                    Op::Reregister => {}
                    _ => model.preg = false,
                }
                model.dirty = false;
                if model.removal_pending {
                    model.removal_pending = false;
                    if model.cur.is_none() {
                        model.empty = true;
                    }
                }
                if model.cur.is_some() && was_disabled && *op == Op::Register {
                    // see run_mock: follow the observation
                    let c = model.cur.unwrap();
                    let fd = sh.borrow().fds[c];
                    let reg = if fd >= 0 { sysx::epoll_table(epfd).iter().any(|e| e.tfd == fd) } else { h.verif_stats().map(|s| s.timer_heap_len > 0).unwrap_or(false) };
                    if reg {
                        model.mode = CMode::Kept;
                    }
                }
            }
        }
        // witness: the kernel's interest list / the timer heap against the model, at quiescent points
        if !model.dirty {
            let table = sysx::epoll_table(epfd);
            let n = sh.borrow().fds.len();
            let mut want_timers = 0;
            for id in 0..n {
                let fd = sh.borrow().fds[id];
                let want = model.preg && model.cur == Some(id) && model.mode == CMode::Kept;
                if fd >= 0 {
                    // a child that was dropped closed its fd; the number may since have been reused by a
                    // later child, so only live children are compared by fd
                    let live_owner = (0..n).rev().find(|j| sh.borrow().fds[*j] == fd) == Some(id);
                    if !live_owner {
                        continue;
                    }
                    let reg = table.iter().any(|e| e.tfd == fd && e.data != u64::MAX);
                    if reg != want && (reg || sysx::fd_is_open(fd)) {
                        let culprit = if reg { "stale-child-still-registered" } else { "current-child-not-registered" };
                        push("registered_iff_current_kept", culprit, format!("after {:?}: fd child #{} (fd {}) in epoll table: {}, expected {} (current {:?}, {:?}, parent registered {})", op, id, fd, reg, want, model.cur, model.mode, model.preg));
                    }
                } else if want {
                    want_timers += 1;
                }
            }
            if kind == ChildKind::Timer {
                if let Some(st) = h.verif_stats() {
                    if st.timer_heap_len != want_timers {
                        let culprit = if st.timer_heap_len > want_timers { "stale-child-still-registered" } else { "current-child-not-registered" };
                        push("registered_iff_current_kept", culprit, format!("after {:?}: timer heap holds {} entries, expected {} (current {:?}, {:?}, parent registered {})", op, st.timer_heap_len, want_timers, model.cur, model.mode, model.preg));
                    }
                }
            }
        }
        drop(push);
        class_parts.push(*op as u64);
    }
    drop(disp);
    drop(el);
    Outcome { alarms, forwarded, changes, class: fnv(&class_parts) }
}

/// is the sequence executable through the loop API? (the parent can only be registered by
/// insert/enable, re-registered by update, unregistered by disable)
fn real_ok(_seq: &[Op]) -> bool {
    true
}

// ------------------------------------------------------------------ main

fn culprit_for(seq: &[Op], step: usize, base: &str) -> String {
    // culprit predicate: which earlier change preceded the failing step
    let mut last_change = "none";
    for op in seq[..step.min(seq.len())].iter() {
        match op {
            Op::EvDisable => last_change = "child-disabled",
            Op::EvRemove => last_change = "child-removed-itself",
            Op::Remove => last_change = "remove",
            Op::Replace => last_change = if last_change == "replace" || last_change == "replace-twice" { "replace-twice" } else { "replace" },
            Op::Register | Op::Reregister | Op::Unregister => {
                if last_change != "child-disabled" {
                    last_change = "none"
                }
            }
            _ => {}
        }
    }
    format!("{}-after-{}", base, last_change)
}

fn main() {
    let args = Args::parse();
    install_panic_hook();
    let t0 = Instant::now();
    let mut res = RunResult::new(&args, "trans");
    let max_children = 3;

    if let Some(path) = &args.replay {
        let v: serde_json::Value = serde_json::from_str(&std::fs::read_to_string(path).expect("replay file")).expect("json");
        let r = &v["replay"];
        let seq: Vec<Op> = serde_json::from_value(r["seq"].clone()).expect("seq");
        let from_child = r["from_child"].as_bool().unwrap_or(true);
        let mode = r["mode"].as_str().unwrap_or("mock").to_string();
        println!("replaying {:?} (from_child={}, mode={})", seq, from_child, mode);
        let out = if mode == "mock" {
            let mut o = None;
            with_poll(|p| o = Some(run_mock(p, &MockRun { seq: &seq, from_child }, max_children)));
            o.unwrap()
        } else {
            let kind = if mode == "real-timer" { ChildKind::Timer } else { ChildKind::Fd };
            run_real(&seq, from_child, kind, max_children)
        };
        for (c, k, d, step) in &out.alarms {
            println!("reproduced at step {}: {}/{} :: {}", step, c, culprit_for(&seq, *step, k), d);
            res.violations.push(Violation { prop: args.prop.clone(), clause: c.clone(), culprit: culprit_for(&seq, *step, k), detail: d.clone(), replay: r.clone() });
        }
        if out.alarms.is_empty() {
            println!("no alarm on this tree");
        }
        res.evaluations = 1;
        res.write(&args.out);
        return;
    }

    let n_mock = args.get_u64("n", if args.thorough() { 8 } else { 6 }) as usize;
    // (real children need /proc and level-triggered epoll: not under Miri)
    let n_real = if cfg!(miri) { 0 } else { args.get_u64("nreal", if args.thorough() { 7 } else { 5 }) as usize };
    let mut seen_sigs: std::collections::BTreeSet<String> = Default::default();
    let mut idx: u64 = 0;
    let shard = args.shard;
    let nshards = args.nshards;

    // (a) mock children, direct calls
    let mut mock_evals = 0u64;
    {
        let res = &mut res;
        let seen = &mut seen_sigs;
        let idxr = &mut idx;
        let mut sample_taken = 0;
        with_poll(|poll| {
            for from_child in [true, false] {
                for len in 1..=n_mock {
                    enumerate(len, from_child, max_children, &mut |seq| {
                        *idxr += 1;
                        if *idxr % nshards != shard {
                            return;
                        }
                        let out = run_mock(poll, &MockRun { seq, from_child }, max_children);
                        mock_evals += 1;
                        res.evaluations += 1;
                        if out.changes > 0 || out.forwarded > 0 {
                            res.nontrivial += 1;
                            res.classes.insert(out.class);
                        }
                        res.ev("forwarded_events", out.forwarded as u64);
                        res.ev("child_changes", out.changes as u64);
                        if sample_taken < 2 && len == n_mock && out.changes >= 2 && out.forwarded >= 1 {
                            sample_taken += 1;
                            res.samples.push(json!({"mode":"mock","from_child":from_child,"seq":seq, "forwarded": out.forwarded, "changes": out.changes}));
                        }
                        for (c, k, d, step) in out.alarms {
                            let culprit = culprit_for(seq, step, &k);
                            let sig = format!("{}/{}", c, culprit);
                            // keep the shortest witness per signature: enumeration is by increasing length
                            if seen.insert(sig) {
                                res.violations.push(Violation {
                                    prop: "C18".into(),
                                    clause: c,
                                    culprit,
                                    detail: format!("{} [sequence {:?}, from_child={}, step {}]", d, seq, from_child, step),
                                    replay: json!({"engine":"trans","mode":"mock","from_child":from_child,"seq":seq}),
                                });
                            }
                        }
                    });
                }
            }
        });
    }
    res.cov("mock_sequences", mock_evals);
    res.cov(&format!("mock_max_len_{}", n_mock), 1);

    // (b) real children through the loop API
    let mut real_evals = 0u64;
    for kind in [ChildKind::Fd, ChildKind::Timer] {
        for from_child in [true, false] {
            for len in 1..=n_real {
                let mut sample_taken = false;
                enumerate(len, from_child, max_children, &mut |seq| {
                    idx += 1;
                    if idx % nshards != shard || !real_ok(seq) {
                        return;
                    }
                    // only sequences that begin by registering the parent reach the loop
                    mark_case(&args.out, idx, "real");
                    let out = run_real(seq, from_child, kind, max_children);
                    real_evals += 1;
                    res.evaluations += 1;
                    if out.changes > 0 || out.forwarded > 0 {
                        res.nontrivial += 1;
                        res.classes.insert(out.class);
                    }
                    res.ev("forwarded_events", out.forwarded as u64);
                    res.ev("child_changes", out.changes as u64);
                    if !sample_taken && len == n_real && out.changes >= 2 && out.forwarded >= 1 {
                        sample_taken = true;
                        res.samples.push(json!({"mode":"real","kind":kind,"from_child":from_child,"seq":seq, "forwarded": out.forwarded, "changes": out.changes}));
                    }
                    for (c, k, d, step) in out.alarms {
                        let culprit = culprit_for(seq, step, &k);
                        let sig = format!("{}/{}", c, culprit);
                        if seen_sigs.insert(sig) {
                            res.violations.push(Violation {
                                prop: "C18".into(),
                                clause: c,
                                culprit,
                                detail: format!("{} [real {:?} child, sequence {:?}, from_child={}, step {}]", d, kind, seq, from_child, step),
                                replay: json!({"engine":"trans","mode": if kind == ChildKind::Timer {"real-timer"} else {"real-fd"},"from_child":from_child,"seq":seq}),
                            });
                        }
                    }
                });
            }
        }
    }
    res.cov("real_sequences", real_evals);
    res.cov(&format!("real_max_len_{}", n_real), 1);
    res.exhaustive = true;
    res.notes.push(format!("all protocol-conforming sequences of length 1..{} (mock child) and 1..{} (real fd and timer children), <= {} children per sequence", n_mock, n_real, max_children));
    res.wall_s = t0.elapsed().as_secs_f64();
    res.write(&args.out);
}
