//! Kernel-side probes: the OS is the oracle for fd readiness, the epoll interest list,
//! eventfd counters, blocking modes and thread states.

use std::os::fd::{AsRawFd, FromRawFd, OwnedFd, RawFd};

pub const POLLIN: i16 = libc::POLLIN;
pub const POLLOUT: i16 = libc::POLLOUT;
pub const POLLHUP: i16 = libc::POLLHUP;
pub const POLLERR: i16 = libc::POLLERR;
pub const POLLPRI: i16 = libc::POLLPRI;

/// zero-timeout poll(2): the fd's true readiness right now
pub fn poll_fd(fd: RawFd) -> i16 {
    let mut p = libc::pollfd {
        fd,
        events: POLLIN | POLLOUT | POLLPRI,
        revents: 0,
    };
    let r = unsafe { libc::poll(&mut p, 1, 0) };
    if r < 0 {
        return 0;
    }
    p.revents
}

pub fn readable_now(fd: RawFd) -> bool {
    poll_fd(fd) & (POLLIN | POLLHUP | POLLERR | POLLPRI) != 0
}

pub fn writable_now(fd: RawFd) -> bool {
    poll_fd(fd) & (POLLOUT | POLLHUP | POLLERR) != 0
}

#[derive(Clone, Copy, Debug, PartialEq, Eq, PartialOrd, Ord)]
pub struct EpEntry {
    pub tfd: RawFd,
    pub events: u32,
    pub data: u64,
}

/// The interest list of an epoll instance as the kernel reports it
pub fn epoll_table(epfd: RawFd) -> Vec<EpEntry> {
    let s = std::fs::read_to_string(format!("/proc/self/fdinfo/{}", epfd)).unwrap_or_default();
    let mut v = Vec::new();
    for line in s.lines() {
        if let Some(rest) = line.strip_prefix("tfd:") {
            // tfd:        5 events:       1b data: ffffffffffffffff  pos:0 ino:... sdev:...
            let toks: Vec<&str> = rest.split_whitespace().collect();
            if toks.len() >= 5 {
                let tfd = toks[0].parse().unwrap_or(-1);
                let events = u32::from_str_radix(toks[2], 16).unwrap_or(0);
                let data = u64::from_str_radix(toks[4], 16).unwrap_or(0);
                v.push(EpEntry { tfd, events, data });
            }
        }
    }
    v.sort();
    v
}

/// current counter of an eventfd
pub fn eventfd_count(fd: RawFd) -> Option<u64> {
    let s = std::fs::read_to_string(format!("/proc/self/fdinfo/{}", fd)).ok()?;
    for line in s.lines() {
        if let Some(rest) = line.strip_prefix("eventfd-count:") {
            return u64::from_str_radix(rest.trim(), 16).ok();
        }
    }
    None
}

pub fn get_fl(fd: RawFd) -> i32 {
    unsafe { libc::fcntl(fd, libc::F_GETFL) }
}

pub fn is_nonblocking(fd: RawFd) -> bool {
    get_fl(fd) & libc::O_NONBLOCK != 0
}

pub fn set_nonblocking(fd: RawFd, nb: bool) {
    let fl = get_fl(fd);
    let new = if nb { fl | libc::O_NONBLOCK } else { fl & !libc::O_NONBLOCK };
    unsafe {
        libc::fcntl(fd, libc::F_SETFL, new);
    }
}

pub fn fd_is_open(fd: RawFd) -> bool {
    unsafe { libc::fcntl(fd, libc::F_GETFD) != -1 }
}

pub fn gettid() -> i32 {
    unsafe { libc::syscall(libc::SYS_gettid) as i32 }
}

/// number of the syscall a thread of this process is currently blocked in (-1 = running)
pub fn thread_syscall(tid: i32) -> Option<i64> {
    let s = std::fs::read_to_string(format!("/proc/self/task/{}/syscall", tid)).ok()?;
    let first = s.split_whitespace().next()?;
    if first == "running" {
        return Some(-1);
    }
    first.parse().ok()
}

pub const SYS_EPOLL_WAIT: i64 = libc::SYS_epoll_wait as i64;
pub const SYS_EPOLL_PWAIT: i64 = libc::SYS_epoll_pwait as i64;
pub const SYS_EPOLL_PWAIT2: i64 = 441;
pub const SYS_FUTEX: i64 = libc::SYS_futex as i64;

pub fn in_epoll_wait(tid: i32) -> bool {
    matches!(thread_syscall(tid), Some(n) if n == SYS_EPOLL_WAIT || n == SYS_EPOLL_PWAIT || n == SYS_EPOLL_PWAIT2)
}

pub fn in_futex(tid: i32) -> bool {
    matches!(thread_syscall(tid), Some(n) if n == SYS_FUTEX)
}

// ---------------------------------------------------------------- fd factories

pub fn pipe_pair() -> (OwnedFd, OwnedFd) {
    let mut fds = [0i32; 2];
    let r = unsafe { libc::pipe2(fds.as_mut_ptr(), libc::O_CLOEXEC | libc::O_NONBLOCK) };
    assert_eq!(r, 0, "pipe2 failed");
    unsafe { (OwnedFd::from_raw_fd(fds[0]), OwnedFd::from_raw_fd(fds[1])) }
}

pub fn eventfd_new() -> OwnedFd {
    let r = unsafe { libc::eventfd(0, libc::EFD_CLOEXEC | libc::EFD_NONBLOCK) };
    assert!(r >= 0, "eventfd failed");
    unsafe { OwnedFd::from_raw_fd(r) }
}

pub fn socket_pair() -> (OwnedFd, OwnedFd) {
    let mut fds = [0i32; 2];
    let r = unsafe {
        libc::socketpair(
            libc::AF_UNIX,
            libc::SOCK_STREAM | libc::SOCK_CLOEXEC | libc::SOCK_NONBLOCK,
            0,
            fds.as_mut_ptr(),
        )
    };
    assert_eq!(r, 0, "socketpair failed");
    unsafe { (OwnedFd::from_raw_fd(fds[0]), OwnedFd::from_raw_fd(fds[1])) }
}

pub fn dup_fd(fd: RawFd) -> OwnedFd {
    let r = unsafe { libc::fcntl(fd, libc::F_DUPFD_CLOEXEC, 3) };
    assert!(r >= 0, "dup failed");
    unsafe { OwnedFd::from_raw_fd(r) }
}

/// write bytes, returns the number written (0 on EAGAIN)
pub fn write_fd(fd: RawFd, buf: &[u8]) -> isize {
    let r = unsafe { libc::write(fd, buf.as_ptr() as *const libc::c_void, buf.len()) };
    if r < 0 {
        0
    } else {
        r
    }
}

/// read once, returns bytes read (0 on EAGAIN/EOF)
pub fn read_fd(fd: RawFd, buf: &mut [u8]) -> isize {
    let r = unsafe { libc::read(fd, buf.as_mut_ptr() as *mut libc::c_void, buf.len()) };
    if r < 0 {
        0
    } else {
        r
    }
}

/// read until EAGAIN/EOF; returns total bytes
pub fn drain_fd(fd: RawFd) -> usize {
    let mut tot = 0usize;
    let mut buf = [0u8; 4096];
    loop {
        let r = unsafe { libc::read(fd, buf.as_mut_ptr() as *mut libc::c_void, buf.len()) };
        if r <= 0 {
            break;
        }
        tot += r as usize;
    }
    tot
}

/// add to an eventfd counter
pub fn eventfd_add(fd: RawFd, n: u64) {
    let b = n.to_ne_bytes();
    unsafe {
        libc::write(fd, b.as_ptr() as *const libc::c_void, 8);
    }
}

pub fn raw(fd: &impl AsRawFd) -> RawFd {
    fd.as_raw_fd()
}

pub fn now_ns() -> u64 {
    let mut ts = libc::timespec { tv_sec: 0, tv_nsec: 0 };
    unsafe {
        libc::clock_gettime(libc::CLOCK_MONOTONIC, &mut ts);
    }
    ts.tv_sec as u64 * 1_000_000_000 + ts.tv_nsec as u64
}

/// is a notification of the poller (its internal eventfd, registered with the reserved key) still unconsumed?
/// `None` if the notifier cannot be identified
pub fn poller_notify_pending(epfd: RawFd) -> Option<bool> {
    let mut found = None;
    for e in epoll_table(epfd) {
        if e.data == u64::MAX {
            if let Some(n) = eventfd_count(e.tfd) {
                found = Some(found.unwrap_or(false) || n > 0);
            }
        }
    }
    found
}
