//! C11: LoopSignal, run() and block_on(): wake-ups and stop requests are never lost.

use super::*;
use crate::hookrec::{self, Rec};
use crate::{sysx, Rng};
use calloop::verif::Site;
use calloop::EventLoop;
use std::future::Future;
use std::pin::Pin;
use std::sync::atomic::{AtomicBool, AtomicI32, AtomicU32, Ordering};
use std::sync::{Arc, Mutex};
use std::task::{Context, Poll, Waker};
use std::time::{Duration, Instant};

pub const SITES: [Site; 10] = [Site::RunIterPre, Site::WaitPre, Site::WaitPost, Site::StopPre, Site::StopPost, Site::WakeupPre, Site::WakeupPost, Site::BoWakeMid, Site::BoSwapPost, Site::BoPollPost];

struct BFut {
    polls: Arc<AtomicU32>,
    done_after: u32,
    waker: Arc<Mutex<Option<Waker>>>,
    /// the future itself asks the loop to stop during its n-th poll
    stop_in_poll: Option<(calloop::LoopSignal, u32)>,
    /// microseconds spent inside every poll after the first (wakes from other threads land inside the poll)
    dawdle_us: u64,
}

impl Future for BFut {
    type Output = u32;
    fn poll(self: Pin<&mut Self>, cx: &mut Context<'_>) -> Poll<u32> {
        let n = self.polls.fetch_add(1, Ordering::SeqCst) + 1;
        hookrec::record(H_POLL, 1, n as u64);
        *self.waker.lock().unwrap() = Some(cx.waker().clone());
        if self.dawdle_us > 0 && n >= 2 && n < 8 && !cfg!(miri) {
            let t = Instant::now();
            while t.elapsed() < Duration::from_micros(self.dawdle_us) {
                std::hint::spin_loop();
            }
        }
        if let Some((sig, at)) = &self.stop_in_poll {
            if n == *at {
                hookrec::record(H_STOP_BEGIN, 1, 0);
                sig.stop();
                hookrec::record(H_STOP_END, 1, 0);
                sig.wakeup();
            }
        }
        if n >= self.done_after {
            hookrec::record(H_READY, 1, n as u64);
            Poll::Ready(n)
        } else {
            Poll::Pending
        }
    }
}

/// state-based verdict on a hang: the loop thread sits in epoll_wait, the waking call has returned
fn loop_parked(tid: i32, epfd: i32) -> bool {
    if cfg!(miri) {
        return false;
    }
    let mut n = 0;
    for _ in 0..5 {
        // parked means: inside epoll_wait *and* no notification of the poller waiting to be consumed
        // (a thread that has been woken but not scheduled yet also shows epoll_wait as its syscall)
        if sysx::in_epoll_wait(tid) && sysx::poller_notify_pending(epfd) == Some(false) {
            n += 1;
        }
        std::thread::sleep(Duration::from_millis(100));
    }
    n == 5
}

/// two cases in five: a timer armed far beyond the case's lifetime sits in the loop, so that every untimed wait is
/// bounded by a timer deadline instead of being infinite (wake-ups and stop requests must get through all the same)
fn far_timer<D>(el: &EventLoop<D>, c: &SchedCase, o: &mut ExecOutcome) {
    if c.case % 5 < 2 {
        let secs = 45 + (c.case % 7) * 5;
        el.handle()
            .insert_source(calloop::timer::Timer::from_duration(Duration::from_secs(secs)), |_, _, _| calloop::timer::TimeoutAction::Drop)
            .expect("timer");
        o.cov("far-timer-armed-during-the-waits");
    }
}

pub fn run(c: &SchedCase) -> ExecOutcome {
    match c.variant % 6 {
        0 | 1 => run_stop(c),
        2 => run_sticky(c),
        3 => run_wakeups(c),
        _ => run_block_on(c),
    }
}

/// bare wakeup() calls from another thread while run(None) iterates: none of them may be lost
fn run_wakeups(c: &SchedCase) -> ExecOutcome {
    let mut o = ExecOutcome::default();
    let mut rng = Rng::derive(c.seed, c.case, 8);
    let mut el: EventLoop<u64> = EventLoop::try_new().expect("loop");
    far_timer(&el, c, &mut o);
    let epfd = std::os::fd::AsRawFd::as_raw_fd(&el);
    let sig = el.get_signal();
    let started = Arc::new(AtomicBool::new(false));
    let returned = Arc::new(AtomicBool::new(false));
    let loop_tid = sysx::gettid();
    let (p, psrc) = calloop::ping::make_ping().expect("ping");
    let st0 = started.clone();
    el.handle().insert_source(psrc, move |_, _, _| st0.store(true, Ordering::SeqCst)).expect("insert");
    p.ping();
    let seed = c.seed ^ c.case;
    let m = c.ops.max(2);
    let pauses: Vec<u64> = (0..m).map(|_| *rng.pick(&[0u64, 0, 20, 100, 400, 1500])).collect();
    // the per-iteration closure dawdles now and then, so that wake-ups land while no wait is in progress
    let dawdle: Vec<u64> = (0..64).map(|_| *rng.pick(&[0u64, 0, 0, 200, 800])).collect();
    hookrec::begin(&c.plan);
    let mut iters: u64 = 0;
    let mut all: Vec<Vec<Rec>> = Vec::new();
    let mut parked_verdict = None;
    std::thread::scope(|s| {
        let st = started.clone();
        let ret = returned.clone();
        let sig2 = sig.clone();
        let hd = s.spawn(move || {
            hookrec::set_thread(1, seed);
            let t0 = Instant::now();
            while !st.load(Ordering::SeqCst) && t0.elapsed() < Duration::from_secs(5) {
                std::thread::yield_now();
            }
            for (i, us) in pauses.iter().enumerate() {
                if !cfg!(miri) && *us > 0 {
                    std::thread::sleep(Duration::from_micros(*us));
                }
                hookrec::record(H_WAKEUP_BEGIN, i as u64, 0);
                sig2.wakeup();
                hookrec::record(H_WAKEUP_END, i as u64, 0);
            }
            // the last wake-up has returned: the loop must leave a wait after it. Give it time, then look
            // at its state before ending the run.
            if !cfg!(miri) {
                std::thread::sleep(Duration::from_millis(60));
            } else {
                // (the interpreter has no clock worth waiting for: give the loop thread its turns)
                for _ in 0..400 {
                    std::thread::yield_now();
                }
            }
            let parked = loop_parked_quick(loop_tid, epfd);
            hookrec::record(H_QUIESCE, parked as u64, 0);
            hookrec::record(H_STOP_BEGIN, 0, 0);
            sig2.stop();
            sig2.wakeup();
            hookrec::record(H_STOP_END, 0, 0);
            let t1 = Instant::now();
            while !ret.load(Ordering::SeqCst) && t1.elapsed() < Duration::from_secs(5) {
                std::thread::sleep(Duration::from_millis(1));
            }
            (hookrec::take_thread(), parked)
        });
        let r = el.run(None, &mut iters, |n| {
            *n += 1;
            hookrec::record(H_ITER, *n, 0);
            let d = dawdle[(*n as usize) % dawdle.len()];
            if d > 0 && !cfg!(miri) {
                std::thread::sleep(Duration::from_micros(d));
            }
        });
        hookrec::record(H_RUN_RETURN, r.is_err() as u64, 0);
        returned.store(true, Ordering::SeqCst);
        match hd.join() {
            Ok((v, parked)) => {
                all.push(v);
                parked_verdict = Some(parked);
            }
            Err(_) => o.inconclusive.push("controller thread panicked".into()),
        }
    });
    hookrec::end();
    all.push(hookrec::take_thread());
    drop(p);
    let recs = hookrec::merge(all);
    o.nontrivial = true;
    o.ev("iterations", iters);
    o.ev("wakeups", m as u64);
    o.cov("bare-wakeups-during-run");
    // every returned wakeup() is followed by a wait that ends (WaitPost) before the run was ended by the harness
    let rescue = recs.iter().find(|r| is_h(r, H_STOP_BEGIN)).map(|r| r.seq).unwrap_or(u64::MAX);
    let mut lost = Vec::new();
    for wb in recs.iter().filter(|r| is_h(r, H_WAKEUP_BEGIN) && r.seq < rescue) {
        let served = recs.iter().any(|r| r.tid == 0 && is_site(r, Site::WaitPost) && r.seq > wb.seq && r.seq < rescue);
        // where did it land?
        let mut ph = "wakeup:before-first-wait";
        for r in recs.iter().filter(|r| r.tid == 0 && r.seq < wb.seq) {
            if is_site(r, Site::WaitPre) {
                ph = "wakeup:loop-inside-the-wait";
            } else if is_site(r, Site::WaitPost) {
                ph = "wakeup:no-wait-in-progress";
            }
        }
        o.cov(ph);
        if !served {
            lost.push(wb.a);
        }
    }
    if !lost.is_empty() && parked_verdict == Some(true) {
        o.alarm("wakeup_sticky", "wakeup-lost-loop-parked-in-epoll_wait", format!("wakeup() calls {:?} had returned, no wait ended after them, and the loop thread was parked in epoll_wait", lost));
    } else if !lost.is_empty() {
        o.inconclusive.push(format!("wakeup() calls {:?} not followed by a finished wait, but the loop thread was not parked", lost));
    }
    o
}

/// three samples over 150 ms
fn loop_parked_quick(tid: i32, epfd: i32) -> bool {
    if cfg!(miri) {
        return false;
    }
    let mut n = 0;
    for _ in 0..3 {
        if sysx::in_epoll_wait(tid) && sysx::poller_notify_pending(epfd) == Some(false) {
            n += 1;
        }
        std::thread::sleep(Duration::from_millis(50));
    }
    n == 3
}

/// wakeup() before the wait starts is not lost (single-threaded form)
fn run_sticky(c: &SchedCase) -> ExecOutcome {
    let mut o = ExecOutcome::default();
    let mut el: EventLoop<()> = EventLoop::try_new().expect("loop");
    far_timer(&el, c, &mut o);
    let sig = el.get_signal();
    hookrec::begin(&c.plan);
    let n = 1 + c.case % 3;
    for _ in 0..n {
        sig.wakeup();
    }
    let t = Instant::now();
    let r = el.dispatch(Some(Duration::from_millis(3000)), &mut ());
    let e = t.elapsed();
    hookrec::end();
    let _ = hookrec::take_thread();
    if r.is_err() {
        o.alarm("dispatch_ok", "dispatch-error", "dispatch failed".into());
    }
    if e >= Duration::from_millis(3000) {
        o.alarm("wakeup_sticky", "wakeup-before-wait-lost", format!("wakeup() was called {} times before dispatch(3 s), which then waited {:?}", n, e));
    }
    // and the wake-up is consumed: the next wait really waits
    let t = Instant::now();
    let _ = el.dispatch(Some(Duration::from_millis(20)), &mut ());
    if t.elapsed() < Duration::from_millis(18) && !cfg!(miri) {
        o.alarm("no_spin", "wakeup-not-consumed", format!("the dispatch after a consumed wake-up returned after {:?} instead of 20 ms", t.elapsed()));
    }
    o.cov("wakeup-before-wait");
    o.nontrivial = true;
    o
}

/// stop() + wakeup() from another thread at a planned moment of run()
fn run_stop(c: &SchedCase) -> ExecOutcome {
    let mut o = ExecOutcome::default();
    let mut rng = Rng::derive(c.seed, c.case, 6);
    let none_timeout = c.variant % 4 == 0;
    let mut el: EventLoop<u64> = EventLoop::try_new().expect("loop");
    far_timer(&el, c, &mut o);
    let epfd = std::os::fd::AsRawFd::as_raw_fd(&el);
    let sig = el.get_signal();
    let started = Arc::new(AtomicBool::new(false));
    let loop_tid = Arc::new(AtomicI32::new(sysx::gettid()));
    let returned = Arc::new(AtomicBool::new(false));
    let seed = c.seed ^ c.case;
    let delay_us = rng.below(3000);
    // a ping that is already pending makes the first iteration return at once; its callback tells the
    // controller that run() has begun (a stop request issued before that is outside the property)
    let (p, psrc) = calloop::ping::make_ping().expect("ping");
    let st0 = started.clone();
    el.handle().insert_source(psrc, move |_, _, _| st0.store(true, Ordering::SeqCst)).expect("insert");
    p.ping();
    hookrec::begin(&c.plan);
    let mut iters: u64 = 0;
    let mut all: Vec<Vec<Rec>> = Vec::new();
    let mut rescue = false;
    if c.case % 3 == 1 {
        // the loop has a history: a block_on that was ended by a stop request issued by its own future during
        // the first poll. It must return None, and the run() that follows must not inherit that request.
        let sig0 = sig.clone();
        let mut first = true;
        let pre_done = Arc::new(AtomicBool::new(false));
        let pre_done2 = pre_done.clone();
        let sig_w = sig.clone();
        let ltid0 = loop_tid.load(Ordering::SeqCst);
        let wd = std::thread::spawn(move || {
            let t = Instant::now();
            while !pre_done2.load(Ordering::SeqCst) {
                if t.elapsed() > Duration::from_secs(2) {
                    let parked = loop_parked(ltid0, epfd);
                    sig_w.stop();
                    sig_w.wakeup();
                    return Some(parked);
                }
                std::thread::sleep(Duration::from_millis(1));
            }
            None
        });
        let r = el.block_on(
            std::future::poll_fn(move |_| {
                if first {
                    first = false;
                    sig0.stop();
                    sig0.wakeup();
                }
                std::task::Poll::<()>::Pending
            }),
            &mut iters,
            |_| {},
        );
        pre_done.store(true, Ordering::SeqCst);
        match wd.join().unwrap_or(None) {
            Some(true) => o.alarm("none_iff_stopped_first", "stop-during-first-poll-lost-loop-parked", "a future called stop()+wakeup() during its first poll, yet block_on sat parked in epoll_wait for 2 s".into()),
            Some(false) => o.inconclusive.push("block_on did not return within 2 s after its future requested stop, loop not parked".into()),
            None => {
                if !matches!(r, Ok(None)) {
                    o.alarm("none_iff_stopped_first", "stopped-block_on-did-not-return-none", format!("a block_on whose future requested stop() returned {:?}", r.map(|x| x.is_some())));
                }
            }
        }
        o.cov("run-after-stopped-block_on");
        // the ping that announces the start may have been consumed by that block_on: renew it
        started.store(false, Ordering::SeqCst);
        p.ping();
    }
    std::thread::scope(|s| {
        let st = started.clone();
        let ret = returned.clone();
        let ltid = loop_tid.clone();
        let sig2 = sig.clone();
        let hd = s.spawn(move || {
            hookrec::set_thread(1, seed);
            let t0 = Instant::now();
            while !st.load(Ordering::SeqCst) && t0.elapsed() < Duration::from_secs(5) {
                std::thread::yield_now();
            }
            if !cfg!(miri) {
                std::thread::sleep(Duration::from_micros(delay_us));
            }
            hookrec::record(H_STOP_BEGIN, 0, 0);
            sig2.stop();
            hookrec::record(H_STOP_END, 0, 0);
            hookrec::record(H_WAKEUP_BEGIN, 0, 0);
            sig2.wakeup();
            hookrec::record(H_WAKEUP_END, 0, 0);
            // watchdog: the request has been made; run() must come back
            let t1 = Instant::now();
            let mut verdict: Option<bool> = None;
            while !ret.load(Ordering::SeqCst) {
                if t1.elapsed() > Duration::from_secs(4) {
                    verdict = Some(loop_parked(ltid.load(Ordering::SeqCst), epfd));
                    // rescue the run so that the process can go on
                    sig2.stop();
                    sig2.wakeup();
                    break;
                }
                std::thread::sleep(Duration::from_millis(1));
            }
            (hookrec::take_thread(), verdict)
        });
        let to = if none_timeout { None } else { Some(Duration::from_millis(5)) };
        let r = el.run(to, &mut iters, |n| {
            *n += 1;
            hookrec::record(H_ITER, *n, 0);
        });
        // with timeout None the first wait only ends with the wake-up: tell the controller we are in
        hookrec::record(H_RUN_RETURN, r.is_err() as u64, 0);
        returned.store(true, Ordering::SeqCst);
        if r.is_err() {
            o.alarm("stop_returns", "run-returned-error", "run() returned an error".into());
        }
        match hd.join() {
            Ok((v, verdict)) => {
                all.push(v);
                match verdict {
                    Some(true) => {
                        rescue = true;
                        o.alarm("stop_returns", "lost-wakeup-loop-parked-in-epoll_wait", "stop()+wakeup() had returned for 4 s and the loop thread was still parked in epoll_wait on 5 samples".into());
                    }
                    Some(false) => {
                        rescue = true;
                        o.inconclusive.push("run() did not return within 4 s but the loop thread was not parked (slow machine?)".into());
                    }
                    None => {}
                }
            }
            Err(_) => o.inconclusive.push("controller thread panicked".into()),
        }
    });
    hookrec::end();
    all.push(hookrec::take_thread());
    let recs = hookrec::merge(all);
    o.ev("iterations", iters);
    o.nontrivial = true;
    o.cov(if none_timeout { "run:timeout-none" } else { "run:timeout-5ms" });
    let stop_begin = recs.iter().find(|r| is_h(r, H_STOP_BEGIN)).map(|r| r.seq);
    let wake_post = recs.iter().find(|r| is_h(r, H_WAKEUP_END)).map(|r| r.seq);
    let ret = recs.iter().find(|r| is_h(r, H_RUN_RETURN)).map(|r| r.seq);
    if let (Some(sb), Some(rt)) = (stop_begin, ret) {
        if rt < sb {
            o.alarm("no_unrequested_return", "run-returned-before-stop", "run() returned Ok before stop() was requested".into());
        }
    }
    if let Some(wp) = wake_post {
        if !rescue {
            let begun_after = recs.iter().filter(|r| is_site(r, Site::RunIterPre) && r.seq > wp).count();
            if begun_after > 1 {
                o.alarm("stop_returns", "iterations-after-stop", format!("{} iterations began after stop()+wakeup() had returned", begun_after));
            }
        }
        // where was the loop when the stop request landed?
        let mut ph = "signal:before-first-wait";
        for r in recs.iter().filter(|r| r.tid == 0 && r.seq < stop_begin.unwrap_or(0)) {
            if is_site(r, Site::WaitPre) {
                ph = "signal:loop-inside-the-wait";
            } else if is_site(r, Site::WaitPost) {
                ph = "signal:after-wait-before-stop-check";
            } else if is_site(r, Site::RunIterPre) {
                ph = "signal:after-stop-check-before-wait";
            }
        }
        o.cov(ph);
        let between = recs.iter().any(|r| r.tid == 0 && is_site(r, Site::WaitPre) && r.seq > recs.iter().find(|x| is_site(x, Site::StopPost)).map(|x| x.seq).unwrap_or(u64::MAX) && r.seq < recs.iter().find(|x| is_site(x, Site::WakeupPre)).map(|x| x.seq).unwrap_or(0));
        if between {
            o.cov("signal:wait-began-between-stop-and-wakeup");
        }
    }
    o
}

/// stop() and then a wake of the future, both issued on the loop thread from inside a dispatch (a timer callback or the
/// per-iteration closure): the stop came first, so block_on returns None without polling the future again
fn run_stop_then_wake(c: &SchedCase) -> ExecOutcome {
    let mut o = ExecOutcome::default();
    let mut el: EventLoop<u64> = EventLoop::try_new().expect("loop");
    far_timer(&el, c, &mut o);
    let sig = el.get_signal();
    let polls = Arc::new(AtomicU32::new(0));
    let gate = Arc::new(AtomicBool::new(false));
    let waker: Arc<Mutex<Option<Waker>>> = Arc::new(Mutex::new(None));
    let from_closure = c.case % 2 == 0;
    let (p2, g2, w2) = (polls.clone(), gate.clone(), waker.clone());
    let fut = std::future::poll_fn(move |cx: &mut Context<'_>| {
        p2.fetch_add(1, Ordering::SeqCst);
        *w2.lock().unwrap() = Some(cx.waker().clone());
        if g2.load(Ordering::SeqCst) {
            Poll::Ready(7u32)
        } else {
            Poll::Pending
        }
    });
    let act = {
        let (sig, gate, waker) = (sig.clone(), gate.clone(), waker.clone());
        move || {
            sig.stop();
            gate.store(true, Ordering::SeqCst);
            if let Some(wk) = waker.lock().unwrap().clone() {
                wk.wake();
            }
        }
    };
    let fired = Arc::new(AtomicBool::new(false));
    if !from_closure {
        let act = act.clone();
        let fired = fired.clone();
        el.handle()
            .insert_source(calloop::timer::Timer::from_duration(Duration::from_millis(2)), move |_, _, _| {
                fired.store(true, Ordering::SeqCst);
                act();
                calloop::timer::TimeoutAction::Drop
            })
            .expect("timer");
    } else {
        // something has to end the first wait
        el.handle().insert_source(calloop::timer::Timer::from_duration(Duration::from_millis(2)), |_, _, _| calloop::timer::TimeoutAction::Drop).expect("timer");
    }
    // a watchdog: a hang must not take the shard with it
    let done = Arc::new(AtomicBool::new(false));
    let (done2, sig2) = (done.clone(), sig.clone());
    let wd = std::thread::spawn(move || {
        let t = Instant::now();
        while !done2.load(Ordering::SeqCst) {
            if t.elapsed() > Duration::from_secs(5) {
                sig2.stop();
                sig2.wakeup();
                return true;
            }
            std::thread::sleep(Duration::from_millis(2));
        }
        false
    });
    let mut iters = 0u64;
    let fired2 = fired.clone();
    let r = el.block_on(fut, &mut iters, move |n| {
        *n += 1;
        if from_closure && !fired2.swap(true, Ordering::SeqCst) {
            act();
        }
    });
    done.store(true, Ordering::SeqCst);
    let rescued = wd.join().unwrap_or(false);
    o.nontrivial = true;
    o.cov(if from_closure { "block_on:stop-then-wake-from-the-iteration-closure" } else { "block_on:stop-then-wake-from-a-callback" });
    if rescued {
        o.inconclusive.push("stop-then-wake scenario: block_on needed the watchdog".into());
        return o;
    }
    let n = polls.load(Ordering::SeqCst);
    match r {
        Ok(None) => {
            if n != 1 {
                o.alarm("none_iff_stopped_first", "future-polled-after-the-stop-request", format!("stop() was followed by a wake inside a dispatch: block_on returned None but polled the future {} times", n));
            }
        }
        Ok(Some(v)) => o.alarm("none_iff_stopped_first", "some-although-stop-came-first", format!("stop() and then a wake were issued inside a dispatch; block_on returned Some({}) after {} polls", v, n)),
        Err(e) => o.alarm("block_on", "block_on-returned-error", format!("block_on failed: {}", e)),
    }
    o
}

/// block_on: polled initially and after every wake; Some iff completed, None iff stopped first
fn run_block_on(c: &SchedCase) -> ExecOutcome {
    if c.case % 7 == 6 && !cfg!(miri) {
        return run_stop_then_wake(c);
    }
    let mut o = ExecOutcome::default();
    let mut rng = Rng::derive(c.seed, c.case, 7);
    let k = c.threads.max(1);
    let m = c.ops.max(1);
    let stop_instead = c.case % 3 == 0;
    let mut el: EventLoop<u64> = EventLoop::try_new().expect("loop");
    far_timer(&el, c, &mut o);
    let epfd = std::os::fd::AsRawFd::as_raw_fd(&el);
    let sig = el.get_signal();
    let polls = Arc::new(AtomicU32::new(0));
    let waker: Arc<Mutex<Option<Waker>>> = Arc::new(Mutex::new(None));
    let total_wakes = k * m;
    let done_after = if stop_instead { 1_000_000 } else { rng.range(1, total_wakes as u64 + 1) as u32 };
    // one case in four: the stop request comes from the future itself, during its first or second poll
    let stop_from_poll = stop_instead && c.case % 4 == 0;
    let fut = BFut { polls: polls.clone(), done_after, waker: waker.clone(), stop_in_poll: if stop_from_poll { Some((sig.clone(), 1 + (c.case / 4 % 2) as u32)) } else { None }, dawdle_us: if c.case % 2 == 1 { rng.range(100, 800) } else { 0 } };
    let seed = c.seed ^ c.case;
    let returned = Arc::new(AtomicBool::new(false));
    let loop_tid = sysx::gettid();
    let mut plan = c.plan.clone();
    if c.case % 2 == 0 {
        // a long delay right after the flag was taken, at the second to fourth poll: wakes land inside it
        plan.long.push((Site::BoSwapPost as u16, rng.range(1, 3) as u32, rng.range(300, 1500) as u32));
    }
    hookrec::begin(&plan);
    let mut all: Vec<Vec<Rec>> = Vec::new();
    let mut iters = 0u64;
    if c.case % 5 == 3 {
        // the loop has been used by an earlier block_on whose future was ready at once
        match el.block_on(std::future::ready(7u32), &mut iters, |_| {}) {
            Ok(Some(7)) => o.cov("block_on:second-call-on-the-same-loop"),
            other => o.alarm("some_iff_completed", "ready-future-not-returned", format!("block_on(ready(7)) returned {:?}", other.map_err(|e| e.to_string()))),
        }
    }
    let mut out: Option<u32> = None;
    let mut rescue = false;
    let mut parked_verdict = false;
    std::thread::scope(|s| {
        let mut hs = Vec::new();
        for t in 0..k {
            let waker = waker.clone();
            let mut r = Rng::derive(seed, t as u64, 77);
            hs.push(s.spawn(move || {
                hookrec::set_thread(t + 1, seed);
                for n in 0..m {
                    let mut wk = None;
                    let tw = Instant::now();
                    let mut spins = 0u32;
                    // (the first poll may be delayed by the delay plan or by a loaded machine)
                    while spins < 5000 || (tw.elapsed() < Duration::from_secs(2) && !cfg!(miri)) {
                        wk = waker.lock().unwrap().clone();
                        if wk.is_some() {
                            break;
                        }
                        spins += 1;
                        std::thread::yield_now();
                    }
                    let Some(wk) = wk else { continue };
                    let wid = ((t as u64 + 1) << 16) | n as u64;
                    hookrec::record(H_WAKE_BEGIN, 1, wid);
                    if r.chance(1, 2) {
                        wk.wake_by_ref();
                    } else {
                        wk.wake();
                    }
                    hookrec::record(H_WAKE_END, 1, wid);
                    if r.chance(1, 2) && !cfg!(miri) {
                        std::thread::sleep(Duration::from_micros(r.below(300)));
                    }
                }
                (hookrec::take_thread(), None::<bool>)
            }));
        }
        // the closer: after the wakers, either stop the loop or make sure the future completes
        let ret = returned.clone();
        let sig2 = sig.clone();
        let waker2 = waker.clone();
        let polls2 = polls.clone();
        let closer = s.spawn(move || {
            hookrec::set_thread(k + 1, seed);
            let t0 = Instant::now();
            // wait until the wakers had their chance
            while polls2.load(Ordering::SeqCst) == 0 && t0.elapsed() < Duration::from_secs(5) {
                std::thread::yield_now();
            }
            if !cfg!(miri) {
                std::thread::sleep(Duration::from_millis(3));
            }
            if stop_instead && !stop_from_poll {
                hookrec::record(H_STOP_BEGIN, 0, 0);
                sig2.stop();
                hookrec::record(H_STOP_END, 0, 0);
                hookrec::record(H_WAKEUP_BEGIN, 0, 0);
                sig2.wakeup();
                hookrec::record(H_WAKEUP_END, 0, 0);
            }
            let t1 = Instant::now();
            let mut verdict = None;
            let mut extra = 0u64;
            // before helping the future along with further wakes, give the scripted ones time to be served
            // and note whether the loop sits in its wait meanwhile (offline: was every scripted wake polled?)
            if !stop_instead && !cfg!(miri) {
                std::thread::sleep(Duration::from_millis(80));
                if !ret.load(Ordering::SeqCst) {
                    let mark = hookrec::record(H_QUIESCE, 2, 0);
                    let _ = mark;
                    let parked = loop_parked_quick(loop_tid, epfd);
                    hookrec::record(H_QUIESCE, parked as u64, 0);
                }
            }
            while !ret.load(Ordering::SeqCst) {
                if !stop_instead && t1.elapsed() > Duration::from_millis(20 * (extra + 1)) && extra < 100 {
                    // keep waking until the future has been polled often enough to complete
                    if let Some(wk) = waker2.lock().unwrap().clone() {
                        extra += 1;
                        hookrec::record(H_WAKE_BEGIN, 1, (99u64 << 16) | extra);
                        wk.wake_by_ref();
                        hookrec::record(H_WAKE_END, 1, (99u64 << 16) | extra);
                    }
                }
                if t1.elapsed() > Duration::from_secs(6) {
                    verdict = Some(loop_parked(loop_tid, epfd));
                    sig2.stop();
                    sig2.wakeup();
                    break;
                }
                std::thread::sleep(Duration::from_millis(1));
            }
            (hookrec::take_thread(), verdict)
        });
        let r = el.block_on(fut, &mut iters, |n| {
            *n += 1;
        });
        hookrec::record(H_BLOCKON_RETURN, r.as_ref().map(|x| x.is_some() as u64).unwrap_or(2), 0);
        returned.store(true, Ordering::SeqCst);
        match r {
            Ok(x) => out = x,
            Err(_) => o.alarm("block_on", "block_on-returned-error", "block_on returned an error".into()),
        }
        for hd in hs {
            if let Ok((v, _)) = hd.join() {
                all.push(v);
            }
        }
        if let Ok((v, verdict)) = closer.join() {
            all.push(v);
            match verdict {
                Some(true) => {
                    rescue = true;
                    parked_verdict = true;
                }
                Some(false) => {
                    rescue = true;
                    o.inconclusive.push("block_on did not return within 6 s but the loop thread was not parked".into());
                }
                None => {}
            }
        }
    });
    hookrec::end();
    all.push(hookrec::take_thread());
    let recs = hookrec::merge(all);
    o.nontrivial = true;
    o.ev("polls", recs.iter().filter(|r| is_h(r, H_POLL)).count() as u64);
    o.ev("wakes", recs.iter().filter(|r| is_h(r, H_WAKE_BEGIN)).count() as u64);
    o.cov(if stop_instead { "block_on:stopped" } else { "block_on:completed" });
    let ready = recs.iter().find(|r| is_h(r, H_READY));
    let stop_begin = recs.iter().find(|r| is_h(r, H_STOP_BEGIN)).map(|r| r.seq);
    if recs.iter().filter(|r| is_h(r, H_POLL)).count() == 0 {
        o.alarm("block_on_polls_after_wake", "future-never-polled", "block_on never polled its future".into());
    }
    if parked_verdict {
        // the loop sat in its wait for 6 s with nothing left to consume: which request did it lose?
        let stop_made = recs.iter().any(|r| is_h(r, H_STOP_END));
        let wakes_begun = recs.iter().filter(|r| is_h(r, H_WAKE_BEGIN)).count();
        let wakes_done = recs.iter().filter(|r| is_h(r, H_WAKE_END)).count();
        let last_wake_end = recs.iter().filter(|r| is_h(r, H_WAKE_END)).map(|r| r.seq).max();
        let polled_after_last_wake = last_wake_end.map(|e| recs.iter().any(|r| is_h(r, H_POLL) && r.seq > e)).unwrap_or(true);
        if stop_instead && stop_made {
            o.alarm("block_on_polls_after_wake", "stop-lost-loop-parked-in-epoll_wait", "block_on did not return for 6 s after stop()+wakeup() had returned and the loop thread was parked in epoll_wait".into());
        } else if wakes_begun > 0 && wakes_done == wakes_begun && !polled_after_last_wake {
            o.alarm("block_on_polls_after_wake", "wake-lost-loop-parked-in-epoll_wait", format!("block_on did not poll its future for 6 s after the last of {} wakes had returned and the loop thread was parked in epoll_wait", wakes_done));
        } else {
            o.inconclusive.push(format!("block_on did not return within 6 s, but the scripted requests were not all made ({} of {} wakes returned, stop requested: {}): the workload did not get that far", wakes_done, wakes_begun, stop_made));
        }
    }
    if !rescue {
        match (out, ready) {
            (Some(_), None) => o.alarm("some_iff_completed", "some-without-completion", "block_on returned Some although the future never completed".into()),
            (None, Some(rd)) => {
                // None is right only if stop() was requested before the future completed
                if stop_begin.map(|s| s > rd.seq).unwrap_or(true) {
                    o.alarm("some_iff_completed", "none-although-completed-first", "block_on returned None although the future completed before any stop request".into());
                }
            }
            (None, None) => {
                if stop_begin.is_none() {
                    o.alarm("none_iff_stopped_first", "none-without-stop", "block_on returned None without a stop request".into());
                }
            }
            (Some(_), Some(_)) => {}
        }
        // every returned wake is followed by a poll (unless the future finished or the loop was stopped);
        // polls that only happened because the harness later issued further wakes do not count
        let first_extra = recs.iter().filter(|r| is_h(r, H_WAKE_BEGIN) && (r.b >> 16) == 99).map(|r| r.seq).min().unwrap_or(u64::MAX);
        let parked_before_extra = recs.iter().any(|r| is_h(r, H_QUIESCE) && r.a == 1);
        for wb in recs.iter().filter(|r| is_h(r, H_WAKE_BEGIN) && (r.b >> 16) != 99) {
            let Some(we) = recs.iter().find(|r| is_h(r, H_WAKE_END) && r.b == wb.b) else { continue };
            // the stricter window only applies to wakes that had returned before the harness sampled the loop's state
            let sampled_at = recs.iter().find(|r| is_h(r, H_QUIESCE)).map(|r| r.seq).unwrap_or(0);
            let strict = parked_before_extra && we.seq < sampled_at;
            let polled_after = recs.iter().any(|r| is_h(r, H_POLL) && r.seq > wb.seq && (r.seq < first_extra || !strict));
            // the future completed in a poll that was still in progress when the wake returned (or earlier):
            // nothing is left to poll
            let final_poll = recs.iter().filter(|r| is_h(r, H_POLL)).map(|r| r.seq).max().unwrap_or(0);
            let finished = ready.map(|r| r.seq < we.seq || final_poll < we.seq).unwrap_or(false);
            let stopped = stop_begin.is_some();
            let went_around = recs.iter().any(|r| r.tid == 0 && is_site(r, Site::WaitPost) && r.seq > wb.seq && recs.iter().any(|q| q.tid == 0 && is_site(q, Site::WaitPre) && q.seq > r.seq));
            if !polled_after && !finished && !stopped && !went_around {
                o.inconclusive.push(format!("wake {:#x} not followed by a poll, but the loop never left its wait after it (starved?)", wb.b));
            }
            if !polled_after && !finished && !stopped && went_around {
                o.alarm("block_on_polls_after_wake", "wake-without-later-poll", format!("wake {:#x} returned but the future was never polled afterwards", wb.b));
                if o.dump.is_empty() {
                    o.dump = format_recs(&recs);
                }
            }
        }
        // where did the wakes land relative to the block_on loop?
        for mid in recs.iter().filter(|r| is_site(r, Site::BoWakeMid)) {
            let mut ph = "wake:before-first-poll";
            for r in recs.iter().filter(|r| r.tid == 0 && r.seq < mid.seq) {
                if is_site(r, Site::BoSwapPost) {
                    ph = "wake:between-flag-swap-and-poll-end";
                } else if is_site(r, Site::BoPollPost) {
                    ph = "wake:after-poll-before-wait";
                } else if is_site(r, Site::WaitPre) {
                    ph = "wake:loop-inside-the-wait";
                } else if is_site(r, Site::WaitPost) {
                    ph = "wake:after-wait-before-flag-swap";
                }
            }
            o.cov(ph);
        }
    }
    o
}
