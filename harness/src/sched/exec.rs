//! C10: executor: no lost wake, polled and dropped on the loop thread only, results exactly once.

use super::*;
use crate::hookrec::{self, Rec};
use crate::Rng;
use calloop::futures::executor;
use calloop::verif::Site;
use calloop::EventLoop;
use std::future::Future;
use std::pin::Pin;
use std::sync::atomic::{AtomicU32, Ordering};
use std::sync::{Arc, Mutex};
use std::task::{Context, Poll, Waker};
use std::time::{Duration, Instant};

pub const SITES: [Site; 10] = [
    Site::ExecSendPre,
    Site::ExecSwapPre,
    Site::ExecSwapPost,
    Site::ExecClearPre,
    Site::ExecClearPost,
    Site::ExecRecvPre,
    Site::PingWritePre,
    Site::PingDrainPost,
    Site::ExecDropWakePre,
    Site::ExecDropDrainPre,
];

pub struct TaskShared {
    pub id: u64,
    pub polls: AtomicU32,
    pub done_after: u32,
    pub waker: Mutex<Option<Waker>>,
    pub dropped: AtomicU32,
}

pub struct SFut {
    pub sh: Arc<TaskShared>,
}

impl Future for SFut {
    type Output = u64;
    fn poll(self: Pin<&mut Self>, cx: &mut Context<'_>) -> Poll<u64> {
        let n = self.sh.polls.fetch_add(1, Ordering::SeqCst) + 1;
        hookrec::record(H_POLL, self.sh.id, n as u64);
        *self.sh.waker.lock().unwrap() = Some(cx.waker().clone());
        if n >= self.sh.done_after {
            hookrec::record(H_READY, self.sh.id, n as u64);
            Poll::Ready(self.sh.id)
        } else {
            Poll::Pending
        }
    }
}

impl Drop for SFut {
    fn drop(&mut self) {
        self.sh.dropped.fetch_add(1, Ordering::SeqCst);
        hookrec::record(H_FUT_DROP, self.sh.id, 0);
    }
}

pub fn run(c: &SchedCase) -> ExecOutcome {
    if c.variant >= 1000 {
        return run_batch(c);
    }
    let mut o = ExecOutcome::default();
    let mut rng = Rng::derive(c.seed, c.case, 5);
    let drop_early = c.variant % 4 == 3 && !c.no_drop_race;
    let mut el: EventLoop<u64> = EventLoop::try_new().expect("loop");
    let h = el.handle();
    let (ex, sched) = executor::<u64>().expect("executor");
    let token = h
        .insert_source(ex, |id, _, n: &mut u64| {
            *n += 1;
            hookrec::record(H_DONE, id, 0);
        })
        .expect("insert");
    let ntasks = rng.range(1, 4) as usize;
    let k = c.threads.max(1);
    let m = c.ops.max(1);
    let tasks: Vec<Arc<TaskShared>> = (0..ntasks)
        .map(|i| Arc::new(TaskShared { id: i as u64 + 1, polls: AtomicU32::new(0), done_after: if drop_early { 10_000 } else { rng.range(1, (k * m) as u64 + 2) as u32 }, waker: Mutex::new(None), dropped: AtomicU32::new(0) }))
        .collect();
    hookrec::begin(&c.plan);
    for t in &tasks {
        hookrec::record(H_SCHEDULE, t.id, 0);
        if sched.schedule(SFut { sh: t.clone() }).is_err() {
            o.alarm("schedule", "schedule-refused", "schedule() on a live executor failed".into());
        }
    }
    let done = AtomicU32::new(0);
    let seed = c.seed ^ c.case;
    let mut results: u64 = 0;
    let mut all: Vec<Vec<Rec>> = Vec::new();
    let mut removed = false;
    let mut late: Vec<Arc<TaskShared>> = Vec::new();
    std::thread::scope(|s| {
        let mut hs = Vec::new();
        for t in 0..k {
            let tasks = tasks.clone();
            let done = &done;
            let mut r = Rng::derive(seed, t as u64, 55);
            hs.push(s.spawn(move || {
                hookrec::set_thread(t + 1, seed);
                for n in 0..m {
                    let task = &tasks[r.below(tasks.len() as u64) as usize];
                    // wait (bounded) until the task has published a waker
                    let mut wk = None;
                    for _ in 0..2000 {
                        wk = task.waker.lock().unwrap().clone();
                        if wk.is_some() {
                            break;
                        }
                        std::thread::yield_now();
                    }
                    let Some(wk) = wk else { continue };
                    let wid = ((t as u64 + 1) << 16) | n as u64;
                    hookrec::record(H_WAKE_BEGIN, task.id, wid);
                    if r.chance(1, 2) {
                        wk.wake_by_ref();
                    } else {
                        wk.wake();
                    }
                    hookrec::record(H_WAKE_END, task.id, wid);
                    if r.chance(1, 3) && !cfg!(miri) {
                        std::thread::sleep(Duration::from_micros(r.below(200)));
                    }
                }
                done.fetch_add(1, Ordering::SeqCst);
                hookrec::take_thread()
            }));
        }
        let t0 = Instant::now();
        let mut iters = 0;
        while done.load(Ordering::SeqCst) < k {
            hookrec::record(H_DISPATCH_BEGIN, 0, 0);
            let before = results;
            let r = el.dispatch(Some(Duration::from_millis(1)), &mut results);
            hookrec::record(H_DISPATCH_END, results - before, r.is_err() as u64);
            if r.is_err() {
                o.alarm("dispatch_ok", "dispatch-error", format!("dispatch failed: {:?}", r.err().map(|e| e.to_string())));
                break;
            }
            iters += 1;
            if !drop_early && iters % 3 == 0 && late.len() < 3 {
                // schedule more work while earlier tasks have completed and others are still pending
                // (holes in the executor's task table)
                let t = Arc::new(TaskShared { id: 100 + late.len() as u64, polls: AtomicU32::new(0), done_after: 1 + (iters as u32 % 2), waker: Mutex::new(None), dropped: AtomicU32::new(0) });
                hookrec::record(H_SCHEDULE, t.id, 0);
                if sched.schedule(SFut { sh: t.clone() }).is_err() {
                    o.alarm("schedule", "schedule-refused", "schedule() on a live executor failed".into());
                }
                late.push(t);
            }
            if drop_early && !removed && iters >= 2 {
                // the executor goes away while wakers are active
                h.remove(token);
                removed = true;
                hookrec::record(H_QUIESCE, 1, 0);
            }
            if t0.elapsed() > Duration::from_secs(20) {
                o.inconclusive.push("executor workload: wakers did not finish within 20 s".into());
                break;
            }
        }
        for hd in hs {
            match hd.join() {
                Ok(v) => all.push(v),
                Err(_) => o.inconclusive.push("a waker thread panicked".into()),
            }
        }
    });
    hookrec::delays_off();
    hookrec::record(H_QUIESCE, 0, 0);
    if drop_early {
        if !removed {
            h.remove(token);
        }
        o.cov("executor-dropped-with-active-wakers");
        // all futures must be gone, schedule must be refused
        let mut leaked = Vec::new();
        for t in &tasks {
            let d = t.dropped.load(Ordering::SeqCst);
            if d > 1 {
                o.alarm("drop_releases_all", "future-dropped-twice", format!("task {}: future dropped {} times after the executor was dropped", t.id, d));
            } else if d == 0 {
                leaked.push(t.id);
            }
        }
        if !leaked.is_empty() {
            // culprit predicate: was a cross-thread wake between taking its runnable and enqueueing it
            // while Executor::drop drained the queue?
            let loop_recs = hookrec::take_thread();
            let so_far = {
                let mut v = all.clone();
                v.push(loop_recs.clone());
                hookrec::merge(v)
            };
            all.push(loop_recs);
            let drain = so_far.iter().find(|r| is_site(r, Site::ExecDropDrainPre)).map(|r| r.seq).unwrap_or(u64::MAX);
            let mut in_flight = false;
            for sp in so_far.iter().filter(|r| r.tid != 0 && is_site(r, Site::ExecSendPre) && r.seq < drain) {
                let swap = so_far.iter().find(|r| r.tid == sp.tid && r.seq > sp.seq && is_site(r, Site::ExecSwapPre)).map(|r| r.seq).unwrap_or(u64::MAX);
                if swap > drain {
                    in_flight = true;
                }
            }
            let late = so_far.iter().any(|r| r.tid != 0 && is_site(r, Site::ExecSendPre) && r.seq > drain);
            let c = if in_flight || late { "runnable-enqueued-after-the-drop-drained-the-queue" } else { "future-not-dropped-after-executor-drop" };
            o.alarm("drop_releases_all", c, format!("tasks {:?}: futures not dropped after the executor was dropped (wake in flight during the drain: {}, wake enqueued after it: {})", leaked, in_flight, late));
        }
        let extra = Arc::new(TaskShared { id: 99, polls: AtomicU32::new(0), done_after: 1, waker: Mutex::new(None), dropped: AtomicU32::new(0) });
        if sched.schedule(SFut { sh: extra }).is_ok() {
            o.alarm("drop_releases_all", "schedule-accepted-by-destroyed-executor", "schedule() succeeded after the executor was dropped".into());
        }
    } else {
        // all wakers have returned: an un-served wake must make the next dispatch run the task
        let loop_recs = hookrec::take_thread();
        let so_far = {
            let mut v = all.clone();
            v.push(loop_recs.clone());
            hookrec::merge(v)
        };
        all.push(loop_recs);
        for t in &late {
            if let Some(w) = t.waker.lock().unwrap().clone() {
                hookrec::record(H_WAKE_BEGIN, t.id, 0xffff);
                w.wake();
                hookrec::record(H_WAKE_END, t.id, 0xffff);
            }
        }
        let unserved = unserved_wakes(&so_far);
        let before_polls: u32 = tasks.iter().map(|t| t.polls.load(Ordering::SeqCst)).sum();
        let t = Instant::now();
        hookrec::record(H_DISPATCH_BEGIN, 1, 0);
        let b = results;
        let r = el.dispatch(Some(if unserved.is_empty() { Duration::ZERO } else { Duration::from_millis(200) }), &mut results);
        hookrec::record(H_DISPATCH_END, results - b, r.is_err() as u64);
        let e = t.elapsed();
        let after_polls: u32 = tasks.iter().map(|t| t.polls.load(Ordering::SeqCst)).sum();
        if !unserved.is_empty() && after_polls == before_polls && e >= Duration::from_millis(200) {
            o.alarm("lost_wake_state", "dispatch-timed-out-with-unserved-wake", format!("wakes {:x?} had returned, their tasks were not polled afterwards, and a 200 ms dispatch timed out", unserved));
        }
        for _ in 0..10 {
            let b = results;
            hookrec::record(H_DISPATCH_BEGIN, 2, 0);
            let _ = el.dispatch(Some(Duration::ZERO), &mut results);
            hookrec::record(H_DISPATCH_END, results - b, 0);
            let p: u32 = tasks.iter().map(|t| t.polls.load(Ordering::SeqCst)).sum();
            if results == b && p == after_polls {
                break;
            }
        }
    }
    drop(sched);
    drop(el);
    hookrec::end();
    all.push(hookrec::take_thread());
    let recs = hookrec::merge(all);
    check(&recs, &mut o, drop_early);
    o
}

/// (task, wake id) of returned wakes of tasks not polled after the wake began and not finished
fn unserved_wakes(recs: &[Rec]) -> Vec<(u64, u64)> {
    let mut out = Vec::new();
    for wb in recs.iter().filter(|r| is_h(r, H_WAKE_BEGIN)) {
        let ended = recs.iter().any(|r| is_h(r, H_WAKE_END) && r.a == wb.a && r.b == wb.b);
        if !ended {
            continue;
        }
        let polled_after = recs.iter().any(|r| is_h(r, H_POLL) && r.a == wb.a && r.seq > wb.seq);
        let ready_at = recs.iter().find(|r| is_h(r, H_READY) && r.a == wb.a).map(|r| r.seq);
        let we = recs.iter().find(|r| is_h(r, H_WAKE_END) && r.a == wb.a && r.b == wb.b).map(|r| r.seq).unwrap_or(0);
        let finished_meanwhile = ready_at.map(|s| s < we).unwrap_or(false);
        let dropped = recs.iter().any(|r| is_h(r, H_FUT_DROP) && r.a == wb.a);
        if !polled_after && !finished_meanwhile && !dropped {
            out.push((wb.a, wb.b));
        }
    }
    out
}

fn check(recs: &[Rec], o: &mut ExecOutcome, drop_early: bool) {
    let polls: Vec<&Rec> = recs.iter().filter(|r| is_h(r, H_POLL)).collect();
    let wakes = recs.iter().filter(|r| is_h(r, H_WAKE_BEGIN)).count();
    o.ev("polls", polls.len() as u64);
    o.ev("wakes", wakes as u64);
    o.ev("results", recs.iter().filter(|r| is_h(r, H_DONE)).count() as u64);
    o.nontrivial = wakes > 0;
    // loop thread only
    for r in recs.iter().filter(|r| is_h(r, H_POLL) || is_h(r, H_FUT_DROP)) {
        if r.tid != 0 {
            let what = if is_h(r, H_POLL) { "polled" } else { "dropped" };
            o.alarm("loop_thread_only", &format!("future-{}-off-the-loop-thread", what), format!("task {} {} on thread {}", r.a, what, r.tid));
        }
    }
    // polled after schedule
    for s in recs.iter().filter(|r| is_h(r, H_SCHEDULE)) {
        let polled = recs.iter().any(|r| is_h(r, H_POLL) && r.a == s.a && r.seq > s.seq);
        if !polled && !drop_early {
            o.alarm("polled_after_schedule", "scheduled-task-never-polled", format!("task {} was scheduled but never polled", s.a));
        }
    }
    if !drop_early {
        let un = unserved_wakes(recs);
        if !un.is_empty() {
            o.alarm("polled_after_wake", "wake-without-later-poll", format!("wakes {:x?} returned but their tasks were never polled afterwards, even after quiescence", un));
        }
    }
    // results exactly once
    for rd in recs.iter().filter(|r| is_h(r, H_READY)) {
        let n = recs.iter().filter(|r| is_h(r, H_DONE) && r.a == rd.a).count();
        if n != 1 && !drop_early {
            let c = if n == 0 { "result-never-delivered" } else { "result-delivered-twice" };
            o.alarm("result_once", c, format!("task {} completed, its result was delivered {} times", rd.a, n));
        }
        // a finished future is not polled again
        if recs.iter().any(|r| is_h(r, H_POLL) && r.a == rd.a && r.seq > rd.seq) {
            o.alarm("result_once", "polled-after-completion", format!("task {} polled after it returned Ready", rd.a));
        }
    }
    for d in recs.iter().filter(|r| is_h(r, H_DONE)) {
        if !recs.iter().any(|r| is_h(r, H_READY) && r.a == d.a && r.seq < d.seq) {
            o.alarm("result_once", "result-without-completion", format!("result of task {} delivered although it never completed", d.a));
        }
    }
    // interleaving classes of the flag protocol: where did each cross-thread send land?
    for s in recs.iter().filter(|r| is_site(r, Site::ExecSendPre) && r.tid != 0) {
        let mut ph = "send:loop-outside-executor-processing";
        for r in recs.iter().filter(|r| r.tid == 0 && r.seq < s.seq) {
            if is_site(r, Site::ExecClearPre) {
                ph = "send:between-clear-pre-and-post";
            } else if is_site(r, Site::ExecClearPost) {
                ph = "send:after-flag-cleared-while-draining";
            } else if is_site(r, Site::ExecRecvPre) {
                ph = "send:while-draining";
            } else if is_site(r, Site::PingCbPost) || is_h(r, H_DISPATCH_END) {
                ph = "send:loop-outside-executor-processing";
            } else if is_site(r, Site::WaitPre) {
                ph = "send:loop-inside-the-wait";
            }
        }
        o.cov(ph);
    }
    for sw in recs.iter().filter(|r| is_site(r, Site::ExecSwapPre) && r.tid != 0) {
        // a whole drain between this thread's enqueue and its flag swap?
        let post = recs.iter().find(|r| r.tid == sw.tid && r.seq > sw.seq && is_site(r, Site::ExecSwapPost)).map(|r| r.seq).unwrap_or(sw.seq);
        let send_pre = recs.iter().filter(|r| r.tid == sw.tid && r.seq < sw.seq && is_site(r, Site::ExecSendPre)).map(|r| r.seq).max().unwrap_or(0);
        if recs.iter().any(|r| r.tid == 0 && r.seq > send_pre && r.seq < post && is_site(r, Site::ExecClearPost)) {
            o.cov("flag-cleared-between-enqueue-and-swap");
        }
    }
    if recs.iter().any(|r| is_site(r, Site::ExecDropWakePre)) && recs.iter().any(|r| is_h(r, H_WAKE_BEGIN) && r.seq > recs.iter().find(|x| is_site(x, Site::ExecDropWakePre)).map(|x| x.seq).unwrap_or(u64::MAX)) {
        o.cov("wake-after-executor-drop-began");
    }
}

/// single-threaded: queue sizes around the 1024 batch limit, scheduling from callbacks and futures
fn run_batch(c: &SchedCase) -> ExecOutcome {
    let mut o = ExecOutcome::default();
    let n: u64 = match c.variant - 1000 {
        0 => 1023,
        1 => 1024,
        2 => 1025,
        3 => 3000,
        v => 900 + (v as u64 * 53) % 2200,
    };
    let mut el: EventLoop<(u64, u64)> = EventLoop::try_new().expect("loop");
    let h = el.handle();
    let (ex, sched) = executor::<u64>().expect("executor");
    let sched2 = sched.clone();
    h.insert_source(ex, move |id, _, d: &mut (u64, u64)| {
        d.0 += 1;
        d.1 += id;
        // scheduling from inside the callback works
        if id == 0 {
            sched2.schedule(async { u64::MAX / 2 }).expect("schedule from callback");
        }
    })
    .expect("insert");
    let sched3 = sched.clone();
    for i in 0..n {
        if i == 1 {
            let s4 = sched3.clone();
            // scheduling from inside a future works
            sched.schedule(async move {
                s4.schedule(async { 7 }).expect("schedule from future");
                1
            })
            .unwrap();
        } else {
            sched.schedule(async move { i }).unwrap();
        }
    }
    let total = n + 2;
    let mut d = (0u64, 0u64);
    let need = (total + 1023) / 1024 + 2;
    let mut used = 0;
    for _ in 0..need + 2 {
        let before = d.0;
        el.dispatch(Some(Duration::ZERO), &mut d).expect("dispatch");
        used += 1;
        if d.0 - before > 1026 {
            o.alarm("batch_bounded", "batch-exceeds-limit", format!("{} results in one dispatch", d.0 - before));
        }
        if d.0 == before {
            break;
        }
    }
    if d.0 != total {
        o.alarm("batch_not_stranded", "batch-remainder-stranded", format!("{} of {} results delivered after {} zero-timeout dispatches", d.0, total, used));
    }
    o.cov(&format!("batch:{}", if n < 1024 { "below-limit" } else if n == 1024 { "at-limit" } else { "above-limit" }));
    o.ev("results", d.0);
    // second part: the executor is dropped while n tasks are alive (parked, re-woken or never polled):
    // every one of their futures must be dropped with it
    let (ex2, sched_b) = executor::<u64>().expect("executor");
    let tok = h.insert_source(ex2, |_, _, _: &mut (u64, u64)| {}).expect("insert");
    let live: Vec<Arc<TaskShared>> = (0..n).map(|i| Arc::new(TaskShared { id: 10_000 + i, polls: AtomicU32::new(0), done_after: u32::MAX, waker: Mutex::new(None), dropped: AtomicU32::new(0) })).collect();
    for t in &live {
        sched_b.schedule(SFut { sh: t.clone() }).expect("schedule");
    }
    // a share of them gets polled (parked with a waker), a share of those is woken again, the rest was never polled
    let style = c.case % 3;
    if style != 0 {
        for _ in 0..3 {
            el.dispatch(Some(Duration::ZERO), &mut d).expect("dispatch");
        }
        if style == 2 {
            for t in live.iter().step_by(2) {
                if let Some(w) = t.waker.lock().unwrap().clone() {
                    w.wake();
                }
            }
        }
    }
    h.remove(tok);
    let not_dropped = live.iter().filter(|t| t.dropped.load(Ordering::SeqCst) == 0).count();
    let twice = live.iter().filter(|t| t.dropped.load(Ordering::SeqCst) > 1).count();
    if not_dropped > 0 || twice > 0 {
        o.alarm("drop_releases_all", "live-tasks-survive-executor-drop", format!("executor dropped with {} live tasks ({}): {} futures not dropped, {} dropped twice", n, ["never polled", "parked", "parked and half re-woken"][style as usize], not_dropped, twice));
    }
    if sched_b.schedule(async { 0 }).is_ok() {
        o.alarm("drop_releases_all", "schedule-accepted-by-destroyed-executor", "schedule() succeeded after the executor was dropped".into());
    }
    o.cov(&format!("drop-with-live-tasks:{}", if n <= 1024 { "up-to-1024" } else { "more-than-1024" }));
    o.nontrivial = true;
    o
}
