//! C04: channel delivers every sent message exactly once, in per-sender order, then one Closed.

use super::*;
use crate::hookrec::{self, Rec};
use crate::{sysx, Rng};
use calloop::channel::{channel, sync_channel, Event, Sender, SyncSender};
use calloop::verif::Site;
use calloop::EventLoop;
use std::sync::atomic::{AtomicI32, AtomicU32, Ordering};
use std::sync::Arc;
use std::time::{Duration, Instant};

pub const SITES: [Site; 6] = [Site::PingWritePre, Site::PingWritePost, Site::ChanSyncBlockPre, Site::ChanRecvPre, Site::PingDrainPre, Site::PingDrainPost];

#[derive(Clone, Copy, Debug)]
enum COp {
    Send,
    TrySend,
    Clone,
    DropExtra,
    Pause(u32),
}

enum Tx {
    A(Sender<u64>),
    S(SyncSender<u64>),
}

impl Tx {
    fn clone_tx(&self) -> Tx {
        match self {
            Tx::A(t) => Tx::A(t.clone()),
            Tx::S(t) => Tx::S(t.clone()),
        }
    }
}

struct LoopData {
    msgs: u64,
    closed: u64,
}

/// the channel as the second sub-source of a user-written composite; the first one (a control ping wrapped in a
/// TransientSource) goes away in mid-run, which moves the channel to another sub-token at the re-registration
struct Paired {
    ctl: calloop::transient::TransientSource<calloop::ping::PingSource>,
    data: calloop::channel::Channel<u64>,
}

type PairedErr = Box<dyn std::error::Error + Send + Sync>;

impl calloop::EventSource for Paired {
    type Event = Event<u64>;
    type Metadata = ();
    type Ret = ();
    type Error = PairedErr;
    fn process_events<F>(&mut self, r: calloop::Readiness, t: calloop::Token, mut cb: F) -> Result<calloop::PostAction, PairedErr>
    where
        F: FnMut(Event<u64>, &mut ()),
    {
        let a = self.ctl.process_events(r, t, |(), _| {}).map_err(|e| Box::new(e) as PairedErr)?;
        let b = self.data.process_events(r, t, |ev, _| cb(ev, &mut ())).map_err(|e| Box::new(e) as PairedErr)?;
        // the composite is finished when its channel is (the control sub-source manages itself through the
        // TransientSource wrapper and only ever asks for a re-registration)
        Ok(if b == calloop::PostAction::Remove { b } else { a | b })
    }
    fn register(&mut self, p: &mut calloop::Poll, f: &mut calloop::TokenFactory) -> calloop::Result<()> {
        self.ctl.register(p, f)?;
        self.data.register(p, f)
    }
    fn reregister(&mut self, p: &mut calloop::Poll, f: &mut calloop::TokenFactory) -> calloop::Result<()> {
        self.ctl.reregister(p, f)?;
        self.data.reregister(p, f)
    }
    fn unregister(&mut self, p: &mut calloop::Poll) -> calloop::Result<()> {
        self.ctl.unregister(p)?;
        self.data.unregister(p)
    }
}

fn on_chan_event(ev: Event<u64>, d: &mut LoopData) {
    match ev {
        Event::Msg(m) => {
            d.msgs += 1;
            hookrec::record(H_MSG, m, 0);
        }
        Event::Closed => {
            d.closed += 1;
            hookrec::record(H_CLOSED, 0, 0);
        }
    }
}

pub fn bound_of(variant: u32) -> Option<usize> {
    match variant % 6 {
        0 | 1 => None,
        2 => Some(0),
        3 => Some(1),
        4 => Some(2),
        _ => Some(8),
    }
}

pub fn run(c: &SchedCase) -> ExecOutcome {
    if c.variant >= 1000 {
        return run_batch(c);
    }
    let mut o = ExecOutcome::default();
    let mut rng = Rng::derive(c.seed, c.case, 4);
    let bound = bound_of(c.variant);
    let mut el: EventLoop<LoopData> = EventLoop::try_new().expect("loop");
    let h = el.handle();
    let (tx, rx) = match bound {
        None => {
            let (t, r) = channel::<u64>();
            (Tx::A(t), r)
        }
        Some(b) => {
            let (t, r) = sync_channel::<u64>(b);
            (Tx::S(t), r)
        }
    };
    // one case in four: the channel lives inside a composite whose first sub-source disappears in mid-run
    let paired = c.case % 4 == 3 && !cfg!(miri);
    let mut ctl_ping = None;
    let token = if paired {
        let (p, ps) = calloop::ping::make_ping().expect("ping");
        ctl_ping = Some(p);
        o.cov("channel-is-second-sub-source-of-a-composite");
        h.insert_source(Paired { ctl: ps.into(), data: rx }, |ev, _, d: &mut LoopData| on_chan_event(ev, d)).expect("insert")
    } else {
        h.insert_source(rx, |ev, _, d: &mut LoopData| on_chan_event(ev, d)).expect("insert")
    };
    o.cov(&format!("bound:{}", bound.map(|b| b.to_string()).unwrap_or_else(|| "unbounded".into())));
    let k = c.threads.max(1);
    let scripts: Vec<Vec<COp>> = (0..k)
        .map(|_| {
            (0..c.ops.max(1))
                .map(|_| match rng.below(12) {
                    0 => COp::Clone,
                    1 => COp::DropExtra,
                    2 | 3 => COp::Pause(rng.below(300) as u32),
                    4 | 5 => COp::TrySend,
                    _ => COp::Send,
                })
                .collect()
        })
        .collect();
    let quiet_tail = c.case % 4 == 1 && bound != Some(0);
    if quiet_tail {
        o.cov("senders-quiet-before-dropping-their-handles");
    }
    let done = AtomicU32::new(0);
    let tids: Vec<Arc<AtomicI32>> = (0..k).map(|_| Arc::new(AtomicI32::new(0))).collect();
    let seed = c.seed ^ c.case;
    let mut data = LoopData { msgs: 0, closed: 0 };
    hookrec::begin(&c.plan);
    let mut all: Vec<Vec<Rec>> = Vec::new();
    let mut main_tx = Some(tx);
    let mut stuck_reported = false;
    let mut stuck: Option<(usize, String, u32, u64)> = None;
    std::thread::scope(|s| {
        let mut hs = Vec::new();
        for t in 0..k {
            let mytx = main_tx.as_ref().unwrap().clone_tx();
            let script = scripts[t as usize].clone();
            let done = &done;
            let tidcell = tids[t as usize].clone();
            hs.push(s.spawn(move || {
                hookrec::set_thread(t + 1, seed);
                tidcell.store(sysx::gettid(), Ordering::SeqCst);
                let mut extra: Vec<Tx> = Vec::new();
                let mut n = 0u64;
                for op in script {
                    match op {
                        COp::Send | COp::TrySend => {
                            n += 1;
                            let id = ((t as u64 + 1) << 32) | n;
                            // messages of one logical sender all go through the same handle: per-sender order is defined
                            let blocking = matches!(op, COp::Send);
                            hookrec::record(H_SEND_BEGIN, id, blocking as u64);
                            let ok = match (&mytx, blocking) {
                                (Tx::A(tx), _) => tx.send(id).is_ok(),
                                (Tx::S(tx), true) => tx.send(id).is_ok(),
                                (Tx::S(tx), false) => tx.try_send(id).is_ok(),
                            };
                            hookrec::record(H_SEND_END, id, ok as u64);
                        }
                        COp::Clone => extra.push(mytx.clone_tx()),
                        COp::DropExtra => {
                            if let Some(e) = extra.pop() {
                                hookrec::record(H_DROP_BEGIN, t as u64 + 1, 0);
                                drop(e);
                                hookrec::record(H_DROP_END, t as u64 + 1, 0);
                            }
                        }
                        COp::Pause(us) => {
                            if !cfg!(miri) {
                                std::thread::sleep(Duration::from_micros(us as u64))
                            } else {
                                std::thread::yield_now()
                            }
                        }
                    }
                }
                // one case in four: the senders go quiet for a while before they let go of their handles, so that a
                // message queued without a wake-up of its own is not rescued by the wake-up of the close
                if quiet_tail && !cfg!(miri) {
                    std::thread::sleep(Duration::from_millis(70));
                }
                hookrec::record(H_DROP_BEGIN, t as u64 + 1, 1);
                drop(extra);
                drop(mytx);
                hookrec::record(H_DROP_END, t as u64 + 1, 1);
                done.fetch_add(1, Ordering::SeqCst);
                hookrec::take_thread()
            }));
        }
        hookrec::record(H_DROP_BEGIN, 0, 1);
        main_tx = None;
        hookrec::record(H_DROP_END, 0, 1);
        let t0 = Instant::now();
        let mut idle_streak = 0u32;
        let mut parked_streak = 0u32;
        let mut rounds = 0u32;
        while done.load(Ordering::SeqCst) < k {
            rounds += 1;
            if rounds == 3 {
                // the control sub-source goes away: the composite is re-registered and the channel gets another sub-token
                drop(ctl_ping.take());
            }
            hookrec::record(H_DISPATCH_BEGIN, 0, 0);
            let before = data.msgs + data.closed;
            let to = if idle_streak > 3 { Duration::from_millis(20) } else { Duration::from_millis(1) };
            let r = el.dispatch(Some(to), &mut data);
            let got = data.msgs + data.closed - before;
            hookrec::record(H_DISPATCH_END, got, r.is_err() as u64);
            if r.is_err() {
                o.alarm("dispatch_ok", "dispatch-error", format!("dispatch failed: {:?}", r.err().map(|e| e.to_string())));
                break;
            }
            if got == 0 {
                idle_streak += 1;
            } else {
                idle_streak = 0;
                parked_streak = 0;
            }
            // bounded restatement of "a blocking send completes while the loop keeps dispatching":
            // the loop idles, every unfinished sender is parked in futex, nothing moves
            if idle_streak > 10 && !cfg!(miri) {
                let unfinished: Vec<i32> = tids.iter().map(|t| t.load(Ordering::SeqCst)).filter(|t| *t != 0).collect();
                let parked = unfinished.iter().filter(|t| sysx::in_futex(**t)).count();
                let alive = (k - done.load(Ordering::SeqCst)) as usize;
                if parked >= alive && alive > 0 {
                    parked_streak += 1;
                } else {
                    parked_streak = 0;
                }
                if parked_streak >= 25 {
                    let b = bound.map(|b| b.to_string()).unwrap_or_else(|| "unbounded".into());
                    // (the alarm is raised once the records are merged: whether the parked senders had sent their
                    // wake-up before parking is part of the signature)
                    let mark = hookrec::record(H_QUIESCE, 77, 0);
                    stuck = Some((alive, b, parked_streak, mark));
                    stuck_reported = true;
                    // free the senders: removing the channel disconnects it
                    h.remove(token);
                    break;
                }
            }
            if t0.elapsed() > Duration::from_secs(25) {
                o.inconclusive.push("channel workload: senders did not finish within 25 s (not all parked)".into());
                h.remove(token);
                break;
            }
        }
        for hd in hs {
            match hd.join() {
                Ok(v) => all.push(v),
                Err(_) => o.inconclusive.push("a sender thread panicked".into()),
            }
        }
    });
    hookrec::delays_off();
    hookrec::record(H_QUIESCE, 0, 0);
    let removed_early = stuck_reported || !o.inconclusive.is_empty();
    if !removed_early {
        // every sender has returned: undelivered messages must have a wake-up pending
        let loop_recs = hookrec::take_thread();
        let so_far = {
            let mut v = all.clone();
            v.push(loop_recs.clone());
            hookrec::merge(v)
        };
        all.push(loop_recs);
        let sent_ok: Vec<u64> = so_far.iter().filter(|r| is_h(r, H_SEND_END) && r.b == 1).map(|r| r.a).collect();
        let delivered: std::collections::BTreeSet<u64> = so_far.iter().filter(|r| is_h(r, H_MSG)).map(|r| r.a).collect();
        let pending = sent_ok.iter().filter(|m| !delivered.contains(m)).count();
        let closed_seen = data.closed > 0;
        for round in 0..8 {
            let before = data.msgs + data.closed;
            let t = Instant::now();
            hookrec::record(H_DISPATCH_BEGIN, 1, 0);
            let owed = round == 0 && (pending > 0 || !closed_seen);
            let r = el.dispatch(Some(if owed { Duration::from_millis(200) } else { Duration::ZERO }), &mut data);
            let e = t.elapsed();
            hookrec::record(H_DISPATCH_END, data.msgs + data.closed - before, r.is_err() as u64);
            let got = data.msgs + data.closed - before;
            if round == 0 && (pending > 0 || !closed_seen) && got == 0 && e >= Duration::from_millis(200) {
                let c = if pending > 0 { "messages-queued-without-wakeup" } else { "closed-never-reported" };
                o.alarm("no_stranded", c, format!("all senders are gone, {} messages undelivered, Closed seen: {}, and a 200 ms dispatch timed out", pending, closed_seen));
            }
            if got == 0 {
                break;
            }
        }
        let occupied = h.verif_stats().map(|s| s.occupied);
        if data.closed > 0 && occupied != Some(0) {
            o.alarm("closed_removes", "source-not-removed-after-closed", format!("Closed was reported but {:?} slots are occupied", occupied));
        }
    }
    hookrec::end();
    all.push(hookrec::take_thread());
    let recs = hookrec::merge(all);
    if let Some((alive, b, streak, mark)) = stuck {
        // the blocking sends that were in progress at the verdict, and whether each had written its wake-up
        let mut no_wake = 0;
        let mut stuck_sends = 0;
        for sb in recs.iter().filter(|r| is_h(r, H_SEND_BEGIN) && r.b == 1 && r.seq < mark) {
            let ended_before = recs.iter().any(|r| is_h(r, H_SEND_END) && r.a == sb.a && r.seq < mark);
            if ended_before {
                continue;
            }
            stuck_sends += 1;
            let woke = recs.iter().any(|r| r.tid == sb.tid && is_site(r, Site::PingWritePost) && r.seq > sb.seq && r.seq < mark);
            if !woke {
                no_wake += 1;
            }
        }
        let culprit = if stuck_sends > 0 && no_wake == stuck_sends { format!("blocking-send-stuck-bound={}-no-wake-up-written-before-parking", b) } else { format!("blocking-send-stuck-bound={}", b) };
        o.alarm("blocking_send_progress", &culprit, format!("{} sender(s) parked inside send() on a sync_channel({}) while the loop ran {} consecutive idle 20 ms dispatches, each finding them parked in futex ({} of {} stuck sends had not written a wake-up)", alive, b, streak, no_wake, stuck_sends));
    }
    check(&recs, &mut o, removed_early);
    o
}

fn check(recs: &[Rec], o: &mut ExecOutcome, removed_early: bool) {
    use std::collections::{BTreeMap, BTreeSet};
    let sends: Vec<&Rec> = recs.iter().filter(|r| is_h(r, H_SEND_END)).collect();
    let ok: BTreeSet<u64> = sends.iter().filter(|r| r.b == 1).map(|r| r.a).collect();
    let begun: BTreeMap<u64, u64> = recs.iter().filter(|r| is_h(r, H_SEND_BEGIN)).map(|r| (r.a, r.seq)).collect();
    let msgs: Vec<&Rec> = recs.iter().filter(|r| is_h(r, H_MSG)).collect();
    let closed: Vec<&Rec> = recs.iter().filter(|r| is_h(r, H_CLOSED)).collect();
    o.ev("sends_ok", ok.len() as u64);
    o.ev("sends_refused", (sends.len() - ok.len()) as u64);
    o.ev("delivered", msgs.len() as u64);
    o.ev("closed", closed.len() as u64);
    o.nontrivial = !ok.is_empty();
    // exactly once, only what was sent
    let mut seen: BTreeMap<u64, u32> = BTreeMap::new();
    for m in &msgs {
        *seen.entry(m.a).or_insert(0) += 1;
        match begun.get(&m.a) {
            None => o.alarm("exactly_once", "foreign-message", format!("message {:#x} was delivered but never sent", m.a)),
            Some(b) if *b > m.seq => o.alarm("exactly_once", "delivered-before-sent", format!("message {:#x} delivered before its send began", m.a)),
            _ => {}
        }
    }
    for (m, n) in &seen {
        if *n > 1 {
            o.alarm("exactly_once", "duplicate-delivery", format!("message {:#x} delivered {} times", m, n));
        }
    }
    if !removed_early {
        let lost: Vec<u64> = ok.iter().filter(|m| !seen.contains_key(m)).copied().collect();
        if !lost.is_empty() {
            o.alarm("exactly_once", "message-never-delivered", format!("{} successfully sent messages were never delivered, e.g. {:#x}", lost.len(), lost[0]));
        }
        // a refused try_send must not be delivered
        for r in sends.iter().filter(|r| r.b == 0) {
            if seen.contains_key(&r.a) {
                o.alarm("exactly_once", "refused-message-delivered", format!("message {:#x} was refused by try_send/send but delivered", r.a));
            }
        }
    }
    // no stranded message: once send() has returned, the wake-up it wrote is pending, so the first dispatch that begins
    // afterwards delivers the message (the workload never queues more than a batch); a message that only arrives after two
    // complete dispatches begun after its send returned owed its delivery to somebody else's later wake-up
    let dispatches: Vec<(u64, u64)> = {
        let mut v = Vec::new();
        let mut open: Option<u64> = None;
        for r in recs.iter().filter(|r| r.tid == 0) {
            if is_h(r, H_DISPATCH_BEGIN) {
                open = Some(r.seq);
            } else if is_h(r, H_DISPATCH_END) {
                if let Some(b) = open.take() {
                    v.push((b, r.seq));
                }
            }
        }
        v
    };
    for se in sends.iter().filter(|r| r.b == 1) {
        let Some(m) = msgs.iter().find(|m| m.a == se.a) else { continue };
        let after: Vec<&(u64, u64)> = dispatches.iter().filter(|(b, _)| *b > se.seq).take(2).collect();
        if after.len() == 2 && m.seq > after[1].1 {
            o.alarm("no_stranded", "message-delivered-only-after-a-later-wake-up", format!("message {:#x}: send() had returned, two complete dispatches that began afterwards did not deliver it, a later one did", se.a));
            break;
        }
    }
    // per-sender order
    let mut last: BTreeMap<u64, u64> = BTreeMap::new();
    for m in &msgs {
        let sender = m.a >> 32;
        let n = m.a & 0xffff_ffff;
        if let Some(p) = last.get(&sender) {
            if n <= *p {
                o.alarm("in_order", "per-sender-order-broken", format!("sender {} message {} delivered after message {}", sender, n, p));
            }
        }
        last.insert(sender, n);
    }
    // Closed: once, after every sender's drop began, nothing after it
    if closed.len() > 1 {
        o.alarm("closed_once", "closed-twice", format!("Closed delivered {} times", closed.len()));
    }
    if let Some(c) = closed.first() {
        if msgs.iter().any(|m| m.seq > c.seq) {
            o.alarm("closed_last", "message-after-closed", "a message was delivered after Closed".into());
        }
        let final_drops: Vec<&Rec> = recs.iter().filter(|r| is_h(r, H_DROP_BEGIN) && r.b == 1).collect();
        if final_drops.iter().any(|d| d.seq > c.seq) {
            o.alarm("closed_once", "closed-with-live-sender", "Closed was delivered before the last sender began to drop".into());
        }
    } else if !removed_early {
        o.alarm("closed_once", "closed-never-delivered", "every sender is gone but Closed was never delivered".into());
    }
    // interleaving classes
    for r in recs.iter().filter(|r| is_site(r, Site::ChanSyncBlockPre)) {
        let _ = r;
        o.cov("sync-send-found-channel-full");
    }
    let writes: Vec<&Rec> = recs.iter().filter(|r| is_site(r, Site::PingWritePre) && r.tid != 0).collect();
    for w in writes {
        let ph = loop_phase_at(recs, w.seq);
        o.cov(&format!("wake-write:{}", phase_name(ph)));
    }
    if recs.iter().any(|r| is_site(r, Site::PingWritePre) && r.tid == 0) {
        o.cov("self-rewake-at-batch-limit-or-capacity");
    }
}

/// single-threaded: queue lengths below, at and above the 1024 batch limit
fn run_batch(c: &SchedCase) -> ExecOutcome {
    let mut o = ExecOutcome::default();
    let n: u64 = match c.variant - 1000 {
        0 => 1023,
        1 => 1024,
        2 => 1025,
        3 => 2048,
        4 => 3000,
        v => 1000 + (v as u64 * 37) % 2100,
    };
    let mut el: EventLoop<(u64, u64, u64)> = EventLoop::try_new().expect("loop");
    let h = el.handle();
    // unbounded, or bounded with a capacity above the batch limit
    let bounded = c.case % 3 == 1;
    let (tx, rx) = if bounded {
        let (t, r) = sync_channel::<u64>(4096);
        (Tx::S(t), r)
    } else {
        let (t, r) = channel::<u64>();
        (Tx::A(t), r)
    };
    h.insert_source(rx, |ev, _, d: &mut (u64, u64, u64)| match ev {
        Event::Msg(m) => {
            if m != d.0 {
                d.2 += 1;
            }
            d.0 += 1;
        }
        Event::Closed => d.1 += 1,
    })
    .expect("insert");
    for i in 0..n {
        match &tx {
            Tx::A(t) => t.send(i).unwrap(),
            Tx::S(t) => t.try_send(i).unwrap(),
        }
    }
    let keep = c.case % 2 == 0;
    let mut tx = Some(tx);
    if !keep {
        tx = None;
    }
    let mut d = (0u64, 0u64, 0u64);
    let need = (n + 1023) / 1024 + 1;
    let mut used = 0;
    for _ in 0..need + 2 {
        let before = d.0 + d.1;
        el.dispatch(Some(Duration::ZERO), &mut d).expect("dispatch");
        used += 1;
        let got = d.0 + d.1 - before;
        if got > 1025 {
            o.alarm("batch_bounded", "batch-exceeds-limit", format!("{} events delivered in one dispatch", got));
        }
        if got == 0 {
            break;
        }
    }
    if d.0 != n {
        o.alarm("no_stranded", "batch-remainder-stranded", format!("{} of {} queued messages delivered after {} zero-timeout dispatches", d.0, n, used));
    }
    if d.2 != 0 {
        o.alarm("in_order", "per-sender-order-broken", format!("{} messages out of order", d.2));
    }
    if !keep && d.1 != 1 {
        o.alarm("closed_once", "closed-count", format!("Closed delivered {} times", d.1));
    }
    drop(tx);
    o.cov(&format!("batch:{}", if n < 1024 { "below-limit" } else if n == 1024 { "at-limit" } else { "above-limit" }));
    if bounded {
        o.cov("batch:bounded-channel-with-capacity-above-the-limit");
    }
    o.ev("delivered", d.0);
    o.nontrivial = true;
    o
}
