//! Thread-schedule engine: client threads against a loop thread, yield-point delay plans,
//! offline checkers over the merged event records (C03 C04 C10 C11).

pub mod chan;
pub mod exec;
pub mod lsig;
pub mod ping;

use crate::hookrec::{self, DelayPlan, Rec, K_HARNESS};
use crate::Rng;
use calloop::verif::Site;

// harness record kinds (stored as K_HARNESS + n)
pub const H_PING_BEGIN: u16 = 1;
pub const H_PING_END: u16 = 2;
pub const H_DROP_BEGIN: u16 = 3;
pub const H_DROP_END: u16 = 4;
pub const H_CB: u16 = 5;
pub const H_DISPATCH_BEGIN: u16 = 6;
pub const H_DISPATCH_END: u16 = 7;
pub const H_SEND_BEGIN: u16 = 8;
pub const H_SEND_END: u16 = 9;
pub const H_MSG: u16 = 10;
pub const H_CLOSED: u16 = 11;
pub const H_WAKE_BEGIN: u16 = 14;
pub const H_WAKE_END: u16 = 15;
pub const H_POLL: u16 = 16;
pub const H_READY: u16 = 17;
pub const H_DONE: u16 = 18;
pub const H_FUT_DROP: u16 = 19;
pub const H_STOP_BEGIN: u16 = 20;
pub const H_STOP_END: u16 = 21;
pub const H_WAKEUP_BEGIN: u16 = 22;
pub const H_WAKEUP_END: u16 = 23;
pub const H_RUN_RETURN: u16 = 24;
pub const H_ITER: u16 = 25;
pub const H_QUIESCE: u16 = 26;
pub const H_SCHEDULE: u16 = 27;
pub const H_BLOCKON_RETURN: u16 = 28;

pub fn is_h(r: &Rec, k: u16) -> bool {
    r.kind == K_HARNESS + k
}
pub fn is_site(r: &Rec, s: Site) -> bool {
    r.kind == s as u16
}

#[derive(Clone, Debug, Default)]
pub struct Alarm {
    pub clause: String,
    pub culprit: String,
    pub detail: String,
}

#[derive(Clone, Debug, Default)]
pub struct ExecOutcome {
    pub alarms: Vec<Alarm>,
    /// coverage classes hit by this execution (name -> count)
    pub cov: std::collections::BTreeMap<String, u64>,
    pub events: std::collections::BTreeMap<String, u64>,
    pub inconclusive: Vec<String>,
    /// hash of the interleaving-class multiset
    pub class: u64,
    pub nontrivial: bool,
    /// formatted records around a violation (replay mode prints them)
    pub dump: Vec<String>,
}

impl ExecOutcome {
    pub fn alarm(&mut self, clause: &str, culprit: &str, detail: String) {
        if self.alarms.len() < 16 {
            self.alarms.push(Alarm { clause: clause.into(), culprit: culprit.into(), detail });
        }
    }
    pub fn cov(&mut self, k: &str) {
        *self.cov.entry(k.to_string()).or_insert(0) += 1;
    }
    pub fn ev(&mut self, k: &str, n: u64) {
        *self.events.entry(k.to_string()).or_insert(0) += n;
    }
    pub fn finish_class(&mut self) {
        let mut parts = Vec::new();
        for (k, v) in &self.cov {
            parts.push(crate::fnv_str(k));
            parts.push((*v).min(3));
        }
        self.class = crate::fnv(&parts);
    }
}

/// where the loop thread (tid 0) was at sequence number `seq`
#[derive(Clone, Copy, Debug, PartialEq, Eq)]
pub enum LoopPhase {
    Outside,
    Waiting,
    Draining,
    InCallback,
    AfterDrain,
}

pub fn loop_phase_at(recs: &[Rec], seq: u64) -> LoopPhase {
    let mut ph = LoopPhase::Outside;
    for r in recs {
        if r.seq >= seq {
            break;
        }
        if r.tid != 0 {
            continue;
        }
        if is_site(r, Site::WaitPre) {
            ph = LoopPhase::Waiting;
        } else if is_site(r, Site::WaitPost) {
            ph = LoopPhase::Outside;
        } else if is_site(r, Site::PingDrainPre) {
            ph = LoopPhase::Draining;
        } else if is_site(r, Site::PingDrainPost) {
            ph = LoopPhase::AfterDrain;
        } else if is_site(r, Site::PingCbPost) || is_h(r, H_DISPATCH_END) {
            ph = LoopPhase::Outside;
        }
    }
    ph
}

pub fn phase_name(p: LoopPhase) -> &'static str {
    match p {
        LoopPhase::Outside => "outside-dispatch-or-between-events",
        LoopPhase::Waiting => "loop-inside-the-wait",
        LoopPhase::Draining => "between-drain-pre-and-post",
        LoopPhase::InCallback => "in-callback",
        LoopPhase::AfterDrain => "between-drain-post-and-callback-end",
    }
}

#[derive(Clone, Debug, serde::Serialize, serde::Deserialize)]
pub struct SchedCase {
    pub workload: String,
    pub seed: u64,
    pub case: u64,
    pub threads: u32,
    pub ops: u32,
    pub variant: u32,
    pub plan: DelayPlan,
    /// leak-checking legs: do not drive the executor-drop race (known finding: it leaks a future by construction)
    #[serde(default)]
    pub no_drop_race: bool,
}

pub fn format_recs(recs: &[Rec]) -> Vec<String> {
    recs.iter()
        .map(|r| {
            let name = if r.kind >= K_HARNESS { format!("H{}", r.kind - K_HARNESS) } else { crate::hookrec::site_name(r.kind).to_string() };
            format!("{:>6} t{} {} a={:#x} b={:#x}", r.seq, r.tid, name, r.a, r.b)
        })
        .collect()
}

pub fn draw_plan(rng: &mut Rng, sites: &[Site], miri: bool) -> DelayPlan {
    let d = rng.below(4) as usize;
    let short = *rng.pick(&[0u32, 0, 5, 20, 50]);
    if miri {
        return DelayPlan::draw(rng, sites, d, 6, (50, 400), 10);
    }
    DelayPlan::draw(rng, sites, d, 8, (200, 3000), short)
}

pub fn run_case(c: &SchedCase) -> ExecOutcome {
    hookrec::set_thread(0, c.seed ^ c.case);
    let r = std::panic::catch_unwind(std::panic::AssertUnwindSafe(|| match c.workload.as_str() {
        "ping" => ping::run(c),
        "chan" => chan::run(c),
        "exec" => exec::run(c),
        "lsig" => lsig::run(c),
        _ => ExecOutcome::default(),
    }));
    let mut o = match r {
        Ok(o) => o,
        Err(p) => {
            // a panic on the loop thread: inside calloop it is a violation of whatever property the
            // workload belongs to, inside the harness it is a harness bug
            hookrec::end();
            let msg = crate::panic_message(p.as_ref());
            let loc = crate::last_panic_loc();
            let mut o = ExecOutcome::default();
            o.nontrivial = true;
            if loc.contains("/repo/") {
                let l: String = loc.rsplit("/repo/").next().unwrap_or(&loc).chars().map(|c| if c.is_alphanumeric() || c == '.' { c } else { '_' }).collect();
                o.alarm("no_panic", &format!("panic-at-{}", l), format!("the loop thread panicked at {}: {}", loc, msg));
            } else {
                o.inconclusive.push(format!("harness panic at {}: {}", loc, msg));
            }
            o
        }
    };
    o.finish_class();
    o
}
