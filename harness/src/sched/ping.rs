//! C03: ping wake-ups are never lost across threads, they coalesce, close is clean.

use super::*;
use crate::hookrec::{self, Rec};
use crate::Rng;
use calloop::ping::make_ping;
use calloop::verif::Site;
use calloop::EventLoop;
use std::sync::atomic::{AtomicU32, Ordering};
use std::time::{Duration, Instant};

#[derive(Clone, Copy, Debug)]
enum POp {
    Ping,
    Clone,
    DropExtra,
    Pause(u32),
}

pub const SITES: [Site; 6] = [Site::PingWritePre, Site::PingWritePost, Site::PingClosePre, Site::PingDrainPre, Site::PingDrainPost, Site::PingCbPost];

/// A ping source kept in a Dispatcher outlives its first loop and is registered with a second one: pings must be
/// delivered there exactly as in the first (no state of the earlier registration may stand in the way)
fn run_second_loop(c: &SchedCase) -> ExecOutcome {
    let mut o = ExecOutcome::default();
    o.nontrivial = true;
    o.cov("source-moved-to-a-second-loop");
    let (ping, src) = make_ping().expect("ping");
    let disp = calloop::Dispatcher::new(src, |_, _, n: &mut u64| *n += 1);
    let mut n = 0u64;
    {
        let mut el1: EventLoop<u64> = EventLoop::try_new().expect("loop");
        let tok = el1.handle().register_dispatcher(disp.clone()).expect("register in the first loop");
        ping.ping();
        let _ = el1.dispatch(Some(Duration::from_millis(200)), &mut n);
        if n != 1 {
            o.alarm("no_lost", "ping-without-later-callback", format!("first loop: one ping, {} callbacks", n));
        }
        match c.case % 3 {
            0 => {}
            1 => {
                let _ = el1.handle().disable(&tok);
            }
            _ => el1.handle().remove(tok),
        }
    }
    let mut el2: EventLoop<u64> = EventLoop::try_new().expect("loop");
    let h2 = el2.handle();
    if let Err(e) = h2.register_dispatcher(disp.clone()) {
        o.alarm("no_lost", "source-rejected-by-a-second-loop", format!("registering the ping source with a second loop failed: {}", e));
        return o;
    }
    let p2 = ping.clone();
    let t = std::thread::spawn(move || p2.ping());
    let _ = t.join();
    let before = n;
    let t0 = Instant::now();
    let _ = el2.dispatch(Some(Duration::from_millis(300)), &mut n);
    if n != before + 1 {
        o.alarm("no_lost", "ping-without-later-callback", format!("second loop: the ping had returned, a {:?} dispatch ran {} callbacks", t0.elapsed(), n - before));
    }
    // close: the last handle goes, the source removes itself
    drop(ping);
    for _ in 0..3 {
        let _ = el2.dispatch(Some(Duration::from_millis(20)), &mut n);
    }
    let occupied = h2.verif_stats().map(|s| s.occupied);
    if occupied != Some(0) {
        o.alarm("close", "source-not-removed-after-last-handle-drop", format!("second loop: all Ping handles are gone but {:?} slots are occupied", occupied));
    }
    o
}

pub fn run(c: &SchedCase) -> ExecOutcome {
    if c.case % 16 == 7 && !cfg!(miri) {
        return run_second_loop(c);
    }
    let mut o = ExecOutcome::default();
    let mut rng = Rng::derive(c.seed, c.case, 3);
    let mut el: EventLoop<u64> = EventLoop::try_new().expect("loop");
    let h = el.handle();
    let (ping, src) = make_ping().expect("ping");
    h.insert_source(src, |_, _, n: &mut u64| {
        *n += 1;
        hookrec::record(H_CB, *n, 0);
    })
    .expect("insert");
    // one case in five: an overloaded ticker shares the loop, a timer that is due again at every single poll
    let mut ticker = None;
    if c.case % 5 == 4 && !cfg!(miri) {
        ticker = Some(h.insert_source(calloop::timer::Timer::immediate(), |_, _, _: &mut u64| calloop::timer::TimeoutAction::ToDuration(Duration::ZERO)).expect("ticker"));
        o.cov("timer-due-at-every-poll");
    }
    let k = c.threads.max(1);
    let closing = c.variant & 1 == 1;
    let wait_style = (c.variant >> 1) % 3;
    let scripts: Vec<Vec<POp>> = (0..k)
        .map(|_| {
            (0..c.ops.max(1))
                .map(|_| match rng.below(10) {
                    0 => POp::Clone,
                    1 => POp::DropExtra,
                    2 | 3 => POp::Pause(rng.below(300) as u32),
                    _ => POp::Ping,
                })
                .collect()
        })
        .collect();
    let done = AtomicU32::new(0);
    // half of the closing cases: the client threads give their last handles up at the same moment (spin barrier)
    let sync_drop = closing && k >= 2 && c.case % 2 == 0 && !cfg!(miri);
    let arrived = AtomicU32::new(0);
    let seed = c.seed ^ c.case;
    let mut cbs: u64 = 0;
    hookrec::begin(&c.plan);
    let mut all: Vec<Vec<Rec>> = Vec::new();
    let mut main_ping = Some(ping);
    std::thread::scope(|s| {
        let mut hs = Vec::new();
        for t in 0..k {
            let p = main_ping.as_ref().unwrap().clone();
            let script = scripts[t as usize].clone();
            let done = &done;
            let arrived = &arrived;
            hs.push(s.spawn(move || {
                hookrec::set_thread(t + 1, seed);
                let mut extra = Vec::new();
                let mut n = 0u64;
                for op in script {
                    match op {
                        POp::Ping => {
                            n += 1;
                            let id = ((t as u64 + 1) << 16) | n;
                            hookrec::record(H_PING_BEGIN, id, 0);
                            p.ping();
                            hookrec::record(H_PING_END, id, 0);
                        }
                        POp::Clone => extra.push(p.clone()),
                        POp::DropExtra => {
                            if let Some(e) = extra.pop() {
                                hookrec::record(H_DROP_BEGIN, t as u64 + 1, 0);
                                drop(e);
                                hookrec::record(H_DROP_END, t as u64 + 1, 0);
                            }
                        }
                        POp::Pause(us) => {
                            if !cfg!(miri) {
                                std::thread::sleep(Duration::from_micros(us as u64))
                            } else {
                                std::thread::yield_now()
                            }
                        }
                    }
                }
                for e in extra {
                    hookrec::record(H_DROP_BEGIN, t as u64 + 1, 0);
                    drop(e);
                    hookrec::record(H_DROP_END, t as u64 + 1, 0);
                }
                hookrec::record(H_DROP_BEGIN, t as u64 + 1, 1);
                if sync_drop {
                    arrived.fetch_add(1, Ordering::SeqCst);
                    let tb = Instant::now();
                    while arrived.load(Ordering::SeqCst) < k && tb.elapsed() < Duration::from_millis(200) {
                        std::hint::spin_loop();
                    }
                }
                drop(p);
                hookrec::record(H_DROP_END, t as u64 + 1, 1);
                done.fetch_add(1, Ordering::SeqCst);
                hookrec::take_thread()
            }));
        }
        if closing {
            // the loop thread gives its own handle up early: the last clone is dropped on a foreign thread
            hookrec::record(H_DROP_BEGIN, 0, 1);
            main_ping = None;
            hookrec::record(H_DROP_END, 0, 1);
        }
        let t0 = Instant::now();
        while done.load(Ordering::SeqCst) < k {
            let to = match wait_style {
                0 => Duration::from_millis(1),
                1 => Duration::from_millis(40),
                _ => Duration::ZERO,
            };
            hookrec::record(H_DISPATCH_BEGIN, 0, 0);
            let before = cbs;
            let r = el.dispatch(Some(to), &mut cbs);
            hookrec::record(H_DISPATCH_END, cbs - before, r.is_err() as u64);
            if r.is_err() {
                o.alarm("dispatch_ok", "dispatch-error", format!("dispatch failed: {:?}", r.err().map(|e| e.to_string())));
                break;
            }
            if t0.elapsed() > Duration::from_secs(20) {
                o.inconclusive.push("ping workload: clients did not finish within 20 s".into());
                break;
            }
        }
        for hd in hs {
            match hd.join() {
                Ok(v) => all.push(v),
                Err(_) => o.inconclusive.push("a pinger thread panicked".into()),
            }
        }
    });
    hookrec::delays_off();
    hookrec::record(H_QUIESCE, 0, 0);
    // --- quiescence phase (loop thread only)
    // is there an ended ping that has not been followed by a callback yet?
    let so_far = {
        let mut v = all.clone();
        v.push(hookrec::take_thread());
        hookrec::merge(v)
    };
    // (take_thread emptied the loop thread's buffer: keep what was taken)
    all.push(so_far.iter().filter(|r| r.tid == 0).cloned().collect());
    let unacked_before = unacked(&so_far);
    hookrec::record(H_DISPATCH_BEGIN, 1, 0);
    let before = cbs;
    let t = Instant::now();
    // (the long timeout is only needed when something is owed: a pending eventfd count makes the wait return at once)
    let r = el.dispatch(Some(if unacked_before.is_empty() { Duration::ZERO } else { Duration::from_millis(200) }), &mut cbs);
    let el1 = t.elapsed();
    hookrec::record(H_DISPATCH_END, cbs - before, r.is_err() as u64);
    if !unacked_before.is_empty() && cbs == before && el1 >= Duration::from_millis(200) {
        o.alarm("lost_wake_state", "dispatch-timed-out-with-unacknowledged-ping", format!("pings {:x?} had returned, no callback followed them, and a 200 ms dispatch timed out", unacked_before));
    }
    for _ in 0..10 {
        hookrec::record(H_DISPATCH_BEGIN, 2, 0);
        let before = cbs;
        let r = el.dispatch(Some(Duration::ZERO), &mut cbs);
        hookrec::record(H_DISPATCH_END, cbs - before, r.is_err() as u64);
        if cbs == before {
            break;
        }
    }
    // (the ticker has done its part: the quiescence checks are about the ping source alone)
    if let Some(t) = ticker.take() {
        h.remove(t);
    }
    let occupied = h.verif_stats().map(|s| s.occupied);
    // not spinning: with nothing pending a 30 ms dispatch lasts 30 ms (a lower bound cannot be broken by load)
    let before = cbs;
    let t = Instant::now();
    let idle_ms = if c.case % 4 == 0 { 30 } else { 3 };
    let _ = el.dispatch(Some(Duration::from_millis(idle_ms)), &mut cbs);
    let idle = t.elapsed();
    if cbs != before {
        o.alarm("no_spurious", "callback-in-idle-dispatch", "a callback ran in a dispatch that followed quiescence".into());
    } else if idle < Duration::from_micros(idle_ms * 900) && !cfg!(miri) {
        o.alarm("close", "loop-spins-after-quiescence", format!("a {} ms dispatch with nothing pending returned after {:?}", idle_ms, idle));
    }
    if closing {
        if occupied != Some(0) {
            o.alarm("close", "source-not-removed-after-last-handle-drop", format!("all Ping handles are gone but {:?} slots are occupied", occupied));
        }
        o.cov("close:all-handles-dropped");
        if sync_drop {
            o.cov("close:last-handles-dropped-simultaneously");
        }
    } else if occupied != Some(1) {
        o.alarm("close", "source-removed-with-live-handle", format!("a Ping handle is alive but {:?} slots are occupied", occupied));
    }
    hookrec::end();
    all.push(hookrec::take_thread());
    drop(main_ping);
    let recs = hookrec::merge(all);
    check(&recs, &mut o, closing);
    o
}

/// ended pings not followed by a callback that started after they began
fn unacked(recs: &[Rec]) -> Vec<u64> {
    let last_cb = recs.iter().filter(|r| is_h(r, H_CB)).map(|r| r.seq).max().unwrap_or(0);
    let ended: std::collections::BTreeSet<u64> = recs.iter().filter(|r| is_h(r, H_PING_END)).map(|r| r.a).collect();
    recs.iter().filter(|r| is_h(r, H_PING_BEGIN) && ended.contains(&r.a) && r.seq > last_cb).map(|r| r.a).collect()
}

fn check(recs: &[Rec], o: &mut ExecOutcome, closing: bool) {
    let pings: Vec<&Rec> = recs.iter().filter(|r| is_h(r, H_PING_BEGIN)).collect();
    let cbs: Vec<&Rec> = recs.iter().filter(|r| is_h(r, H_CB)).collect();
    o.ev("pings", pings.len() as u64);
    o.ev("callbacks", cbs.len() as u64);
    o.ev("records", recs.len() as u64);
    o.nontrivial = !pings.is_empty();
    // no_lost
    let left = unacked(recs);
    if !left.is_empty() {
        o.alarm("no_lost", "ping-without-later-callback", format!("pings {:x?} returned but no callback started after they began, even after quiescence", left));
    }
    // coalesce (threaded form): never more callbacks than pings
    if cbs.len() > pings.len() {
        o.alarm("coalesce", "more-callbacks-than-pings", format!("{} callbacks for {} pings", cbs.len(), pings.len()));
    }
    // ping writes: (pre seq, post seq) of the write belonging to each ping() call
    let mut writes: Vec<(u64, u64)> = Vec::new();
    for p in &pings {
        let end = recs.iter().find(|r| is_h(r, H_PING_END) && r.a == p.a).map(|r| r.seq).unwrap_or(u64::MAX);
        let pre = recs.iter().find(|r| r.tid == p.tid && r.seq > p.seq && r.seq < end && is_site(r, Site::PingWritePre)).map(|r| r.seq);
        let post = recs.iter().find(|r| r.tid == p.tid && r.seq > p.seq && r.seq < end && is_site(r, Site::PingWritePost)).map(|r| r.seq);
        if let Some(pre) = pre {
            writes.push((pre, post.unwrap_or(u64::MAX)));
            let ph = loop_phase_at(recs, pre);
            o.cov(&format!("ping-write:{}", phase_name(ph)));
        }
    }
    // no_spurious: callback j needs a ping whose write may have landed after the previous drain
    let drains_pre: Vec<u64> = recs.iter().filter(|r| is_site(r, Site::PingDrainPre)).map(|r| r.seq).collect();
    let drains_post: Vec<u64> = recs.iter().filter(|r| is_site(r, Site::PingDrainPost)).map(|r| r.seq).collect();
    let mut prev_drain_pre = 0u64;
    for cb in &cbs {
        // the drain that fed this callback is the last DrainPost before it
        let dpost = drains_post.iter().copied().filter(|s| *s < cb.seq).max();
        let dpre = drains_pre.iter().copied().filter(|s| Some(*s) < dpost.or(Some(u64::MAX))).max();
        let Some(dpost) = dpost else {
            o.inconclusive.push("callback without a recorded drain".into());
            continue;
        };
        let justified = writes.iter().any(|(pre, post)| *pre < dpost && *post > prev_drain_pre);
        if !justified {
            o.alarm("no_spurious", "callback-without-ping", format!("callback #{} (seq {}) has no ping written between the previous drain and its own", cb.a, cb.seq));
        }
        prev_drain_pre = dpre.unwrap_or(prev_drain_pre);
    }
    // close marker position relative to the last ping write
    let close_pre: Vec<&Rec> = recs.iter().filter(|r| is_site(r, Site::PingClosePre)).collect();
    if closing {
        if close_pre.len() != 1 {
            o.alarm("close", "close-marker-count", format!("{} close markers were sent for one source", close_pre.len()));
        }
        if let Some(cp) = close_pre.first() {
            let last_write = writes.iter().map(|w| w.0).max().unwrap_or(0);
            let last_post = writes.iter().map(|w| w.1).max().unwrap_or(0);
            let cls = if cp.seq > last_post {
                "close:marker-after-last-ping"
            } else if cp.seq < last_write {
                "close:marker-before-a-ping-write"
            } else {
                "close:marker-during-last-ping-write"
            };
            o.cov(cls);
            if cp.tid != 0 {
                o.cov("close:last-clone-dropped-on-foreign-thread");
            }
        }
    } else if !close_pre.is_empty() {
        o.alarm("close", "close-marker-with-live-handle", "a close marker was sent although a handle is alive".into());
    }
    for r in recs.iter().filter(|r| is_h(r, H_DISPATCH_END)) {
        if r.a > 1 {
            o.alarm("coalesce", "two-callbacks-in-one-dispatch", format!("{} ping callbacks in one dispatch", r.a));
        }
    }
}
