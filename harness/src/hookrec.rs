//! Recorder and delay planner behind calloop's yield points.
//!
//! Every thread appends `(seq, thread, kind, a, b)` records to a thread-local buffer; `seq`
//! comes from one global relaxed counter, which gives a total order consistent with each
//! thread's program order and with happens-before, without adding a synchronisation edge
//! (so it cannot hide a race from TSan or Miri). Buffers are merged after the threads are
//! joined. The same hook perturbs the schedule: a PCT-style plan gives a few
//! (site, occurrence) pairs a long delay and every other yield point a short random one.

use calloop::verif::{Site, N_SITES};
use std::cell::{Cell, RefCell};
use std::sync::atomic::{AtomicBool, AtomicU32, AtomicU64, Ordering};
use std::sync::Mutex;

use crate::Rng;

#[derive(Clone, Copy, Debug, PartialEq, Eq)]
pub struct Rec {
    pub seq: u64,
    pub tid: u32,
    /// < 1000: a calloop `Site`; >= 1000: a harness event
    pub kind: u16,
    pub a: u64,
    pub b: u64,
}

pub const K_HARNESS: u16 = 1000;

static SEQ: AtomicU64 = AtomicU64::new(1);
static ACTIVE: AtomicBool = AtomicBool::new(false);
static DELAYS_ON: AtomicBool = AtomicBool::new(false);
static OCC: [AtomicU32; N_SITES] = [const { AtomicU32::new(0) }; N_SITES];
static SHORT_MAX_US: AtomicU32 = AtomicU32::new(0);
static PLAN: Mutex<Vec<(u16, u32, u32)>> = Mutex::new(Vec::new());
// the plan is copied into these atomics so that the hook itself never takes a lock
const MAX_LONG: usize = 8;
static LONG_SITE: [AtomicU32; MAX_LONG] = [const { AtomicU32::new(u32::MAX) }; MAX_LONG];
static LONG_OCC: [AtomicU32; MAX_LONG] = [const { AtomicU32::new(0) }; MAX_LONG];
static LONG_US: [AtomicU32; MAX_LONG] = [const { AtomicU32::new(0) }; MAX_LONG];

thread_local! {
    static BUF: RefCell<Vec<Rec>> = const { RefCell::new(Vec::new()) };
    static TID: Cell<u32> = const { Cell::new(0) };
    static TRNG: RefCell<Rng> = RefCell::new(Rng::new(0));
}

#[derive(Clone, Debug, Default, serde::Serialize, serde::Deserialize)]
pub struct DelayPlan {
    /// (site, occurrence number (0-based, counted process-wide), delay in microseconds)
    pub long: Vec<(u16, u32, u32)>,
    /// upper bound of the short random delay applied at every other yield point (0 = none)
    pub short_max_us: u32,
}

impl DelayPlan {
    pub fn none() -> DelayPlan {
        DelayPlan::default()
    }
    /// draw a plan: `d` long delays among `sites`
    pub fn draw(rng: &mut Rng, sites: &[Site], d: usize, max_occ: u32, long_us: (u32, u32), short_max_us: u32) -> DelayPlan {
        let mut long = Vec::new();
        for _ in 0..d.min(MAX_LONG) {
            let s = *rng.pick(sites) as u16;
            let occ = rng.below(max_occ as u64) as u32;
            let us = rng.range(long_us.0 as u64, long_us.1 as u64) as u32;
            long.push((s, occ, us));
        }
        DelayPlan { long, short_max_us }
    }
}

/// logical thread id of the calling thread (0 = loop thread by convention)
pub fn set_thread(tid: u32, seed: u64) {
    TID.with(|t| t.set(tid));
    TRNG.with(|r| *r.borrow_mut() = Rng::derive(seed, tid as u64, 77));
    BUF.with(|b| b.borrow_mut().clear());
}

/// start a recorded execution
pub fn begin(plan: &DelayPlan) {
    SEQ.store(1, Ordering::SeqCst);
    for o in OCC.iter() {
        o.store(0, Ordering::SeqCst);
    }
    for i in 0..MAX_LONG {
        if let Some((s, o, us)) = plan.long.get(i) {
            LONG_SITE[i].store(*s as u32, Ordering::SeqCst);
            LONG_OCC[i].store(*o, Ordering::SeqCst);
            LONG_US[i].store(*us, Ordering::SeqCst);
        } else {
            LONG_SITE[i].store(u32::MAX, Ordering::SeqCst);
        }
    }
    *PLAN.lock().unwrap() = plan.long.clone();
    SHORT_MAX_US.store(plan.short_max_us, Ordering::SeqCst);
    DELAYS_ON.store(!plan.long.is_empty() || plan.short_max_us > 0, Ordering::SeqCst);
    ACTIVE.store(true, Ordering::SeqCst);
    calloop::verif::set_yield_hook(Some(hook));
}

pub fn end() {
    ACTIVE.store(false, Ordering::SeqCst);
    DELAYS_ON.store(false, Ordering::SeqCst);
    calloop::verif::set_yield_hook(None);
}

/// stop perturbing (used when the workload enters its quiescence phase)
pub fn delays_off() {
    DELAYS_ON.store(false, Ordering::SeqCst);
}

#[inline]
pub fn next_seq() -> u64 {
    SEQ.fetch_add(1, Ordering::Relaxed)
}

/// record a harness event on the calling thread
pub fn record(kind: u16, a: u64, b: u64) -> u64 {
    let seq = next_seq();
    let tid = TID.with(|t| t.get());
    BUF.with(|buf| {
        buf.borrow_mut().push(Rec { seq, tid, kind: K_HARNESS + kind, a, b });
    });
    seq
}

/// the records of the calling thread (call before the thread ends)
pub fn take_thread() -> Vec<Rec> {
    BUF.with(|b| std::mem::take(&mut *b.borrow_mut()))
}

pub fn merge(mut parts: Vec<Vec<Rec>>) -> Vec<Rec> {
    let mut all: Vec<Rec> = parts.drain(..).flatten().collect();
    all.sort_by_key(|r| r.seq);
    all
}

fn spin_us(us: u32) {
    if cfg!(miri) {
        for _ in 0..(us / 10 + 1) {
            std::thread::yield_now();
        }
        return;
    }
    if us >= 60 {
        std::thread::sleep(std::time::Duration::from_micros(us as u64));
    } else if us > 0 {
        let t0 = std::time::Instant::now();
        while t0.elapsed().as_micros() < us as u128 {
            std::hint::spin_loop();
        }
    } else {
        std::thread::yield_now();
    }
}

fn hook(site: Site) {
    if !ACTIVE.load(Ordering::Relaxed) {
        return;
    }
    let s = site as u16;
    let occ = OCC[s as usize].fetch_add(1, Ordering::Relaxed);
    let seq = next_seq();
    let tid = TID.with(|t| t.get());
    let _ = BUF.try_with(|buf| {
        if let Ok(mut b) = buf.try_borrow_mut() {
            b.push(Rec { seq, tid, kind: s, a: occ as u64, b: 0 });
        }
    });
    if !DELAYS_ON.load(Ordering::Relaxed) {
        return;
    }
    for i in 0..MAX_LONG {
        let ls = LONG_SITE[i].load(Ordering::Relaxed);
        if ls == u32::MAX {
            break;
        }
        if ls == s as u32 && LONG_OCC[i].load(Ordering::Relaxed) == occ {
            spin_us(LONG_US[i].load(Ordering::Relaxed));
            return;
        }
    }
    let m = SHORT_MAX_US.load(Ordering::Relaxed);
    if m > 0 {
        let r = TRNG
            .try_with(|r| r.try_borrow_mut().map(|mut r| r.below(4 * m as u64 + 4)).unwrap_or(0))
            .unwrap_or(0);
        // three quarters of the yield points get no delay at all, the rest 0..m microseconds
        if r < m as u64 {
            spin_us(r as u32);
        } else if r % 7 == 0 {
            std::thread::yield_now();
        }
    }
}

pub fn site_name(k: u16) -> &'static str {
    const NAMES: [&str; N_SITES] = [
        "PingWritePre", "PingWritePost", "PingClosePre", "PingDrainPre", "PingDrainPost", "PingCbPost",
        "ChanSyncBlockPre", "ChanRecvPre", "ExecSendPre", "ExecSwapPre", "ExecSwapPost", "ExecClearPre",
        "ExecClearPost", "ExecRecvPre", "ExecDropWakePre", "ExecDropDrainPre", "WaitPre", "WaitPost",
        "RunIterPre", "StopPre", "StopPost", "WakeupPre", "WakeupPost", "BoWakeMid", "BoSwapPost", "BoPollPost",
    ];
    NAMES.get(k as usize).copied().unwrap_or("?")
}
