//! Construction and insertion of the sources a history asks for.

use super::exec;
use super::ops::{snapshot, Ctx, Snap};
use super::spec::*;
use super::world::*;
use super::zoo::*;
use crate::sysx;
use calloop::channel::{channel, sync_channel};
use calloop::futures::executor;
use calloop::generic::Generic;
use calloop::ping::make_ping;
use calloop::stream::StreamSource;
use calloop::timer::Timer;
use calloop::transient::TransientSource;
use calloop::{Dispatcher, Interest, Mode};
use std::cell::RefCell;
use std::os::fd::{AsRawFd, OwnedFd};
use std::rc::Rc;
use std::time::Duration;

pub fn interest(i: Int) -> Interest {
    match i {
        Int::Read => Interest::READ,
        Int::Write => Interest::WRITE,
        Int::Both => Interest::BOTH,
        Int::Empty => Interest::EMPTY,
    }
}

pub fn mode(m: Md) -> Mode {
    match m {
        Md::Level => Mode::Level,
        Md::Edge => Mode::Edge,
        Md::OneShot => Mode::OneShot,
    }
}

fn new_child(kind: FdKind, int: Int, md: Md) -> (FdX, FdChild) {
    let (src, peer): (OwnedFd, OwnedFd) = match kind {
        FdKind::Pipe => {
            let (r, wr) = sysx::pipe_pair();
            if int == Int::Write {
                (wr, r)
            } else {
                (r, wr)
            }
        }
        FdKind::Eventfd => {
            let e = sysx::eventfd_new();
            let d = sysx::dup_fd(e.as_raw_fd());
            (e, d)
        }
        FdKind::Socket => sysx::socket_pair(),
    };
    let raw = src.as_raw_fd();
    (
        FdX::owned(src),
        FdChild { src_raw: raw, peer: Some(peer), kind, int, md, armed: false, edge_pending: false, modified_at: 0, rereg_at: 0, cbs: 0, child: ChildSt::Kept, child_pending: ChildSt::Kept },
    )
}

/// open a regular file: epoll refuses it with EPERM
pub fn regular_file() -> OwnedFd {
    let f = std::fs::File::open("/proc/self/exe").or_else(|_| std::fs::File::open("/etc/hostname")).expect("a regular file");
    OwnedFd::from(f)
}

fn build_inner(uid: Uid, spec: &SourceSpec, s: &mut Src, dup_of: Option<i32>, given: Option<(FdX, Option<OwnedFd>)>) -> Inner {
    match &spec.kind {
        Kind::Ping => {
            let (p, src) = make_ping().expect("make_ping");
            s.ping_handles.push(p);
            Inner::Ping(src)
        }
        Kind::Chan { bound } => match bound {
            None => {
                let (tx, rx) = channel::<u64>();
                s.senders.push(ChanTx::A(tx));
                Inner::Chan(rx)
            }
            Some(b) => {
                // (bound 255 stands for a capacity above the 1024 batch limit)
                let (tx, rx) = sync_channel::<u64>(if *b == 255 { 4096 } else { (*b).max(1) as usize });
                s.senders.push(ChanTx::S(tx));
                Inner::Chan(rx)
            }
        },
        Kind::Timer { dl } => match resolve_dl(*dl) {
            Some(i) => {
                s.deadline = Some((i, i));
                Inner::Timer(Timer::from_deadline(i))
            }
            None => {
                s.deadline = None;
                Inner::Timer(Timer::from_duration(Duration::MAX))
            }
        },
        Kind::Gen { fd, int, md } => {
            let (fdx, mut child) = match spec.bad_fd {
                None if given.is_some() => {
                    let (f, p) = given.unwrap();
                    let raw = f.raw;
                    (f, FdChild { src_raw: raw, peer: p, kind: *fd, int: *int, md: *md, armed: false, edge_pending: false, modified_at: 0, rereg_at: 0, cbs: 0, child: ChildSt::Kept, child_pending: ChildSt::Kept })
                }
                None => new_child(*fd, *int, *md),
                Some(BadFd::RegularFile) => {
                    let f = regular_file();
                    let raw = f.as_raw_fd();
                    (FdX::owned(f), FdChild { src_raw: raw, peer: None, kind: *fd, int: *int, md: *md, armed: false, edge_pending: false, modified_at: 0, rereg_at: 0, cbs: 0, child: ChildSt::Kept, child_pending: ChildSt::Kept })
                }
                Some(BadFd::Duplicate) => {
                    // the same fd *number* as a live registration: epoll answers EEXIST
                    let raw = dup_of.unwrap_or(-1);
                    (FdX::named(raw), FdChild { src_raw: raw, peer: None, kind: *fd, int: *int, md: *md, armed: false, edge_pending: false, modified_at: 0, rereg_at: 0, cbs: 0, child: ChildSt::Kept, child_pending: ChildSt::Kept })
                }
                Some(BadFd::Closed) => {
                    // a number that is not open: EBADF
                    let e = sysx::eventfd_new();
                    let raw = e.as_raw_fd();
                    drop(e);
                    (FdX::named(raw), FdChild { src_raw: raw, peer: None, kind: *fd, int: *int, md: *md, armed: false, edge_pending: false, modified_at: 0, rereg_at: 0, cbs: 0, child: ChildSt::Kept, child_pending: ChildSt::Kept })
                }
            };
            child.cbs = 0;
            s.fds.push(child);
            Inner::Gen(Generic::new(fdx, interest(*int), mode(*md)))
        }
        Kind::Raw => {
            let (fdx, child) = new_child(FdKind::Eventfd, Int::Read, Md::Level);
            s.fds.push(child);
            Inner::Raw(fdx)
        }
        Kind::Exec => {
            let (ex, sched) = executor::<u64>().expect("executor");
            s.sched = Some(sched);
            Inner::Exec(ex)
        }
        Kind::Stream => {
            let st = Rc::new(RefCell::new(StreamState::default()));
            s.stream = Some(st.clone());
            Inner::Stream(StreamSource::new(ScriptStream(st)).expect("stream source"))
        }
        Kind::Comp { n, transient, timer } => {
            let tm = timer.map(|dl| {
                let i = resolve_dl(dl).unwrap_or_else(|| std::time::Instant::now() + Duration::from_secs(3600));
                s.deadline = Some((i, i));
                Timer::from_deadline(i)
            });
            let mut cs = Vec::new();
            for _ in 0..(*n).max(1) {
                let (fdx, child) = new_child(FdKind::Eventfd, Int::Read, Md::Level);
                s.fds.push(child);
                let g = Generic::new(fdx, Interest::READ, Mode::Level);
                cs.push(if *transient { Child::Tr(TransientSource::from(g)) } else { Child::Plain(g) });
            }
            let _ = uid;
            Inner::Comp(tm, cs)
        }
    }
}

fn expected_to_fail(spec: &SourceSpec) -> bool {
    spec.bad_fd.is_some() || matches!(spec.fault, Some(Fault { on: RegCall::Register, nth: 0, .. }))
}

/// compare the tables before and after a call that failed
pub fn check_as_if_not_made(w: &mut World, what: &str, before: &Snap, after: &Snap) {
    if let (Some(b), Some(a)) = (before.stats, after.stats) {
        if a.occupied != b.occupied {
            w.alarm("C15.as_if_not_made", "slot-leaked", format!("{}: occupied slots {} -> {}", what, b.occupied, a.occupied));
        }
        if a.lifecycle_len != b.lifecycle_len {
            w.alarm("C15.as_if_not_made", "lifecycle-entry-leaked", format!("{}: lifecycle set {} -> {} entries", what, b.lifecycle_len, a.lifecycle_len));
        }
        if a.timer_heap_len != b.timer_heap_len {
            w.alarm("C15.as_if_not_made", "timer-entry-leaked", format!("{}: timer heap {} -> {} entries", what, b.timer_heap_len, a.timer_heap_len));
        }
    }
    if before.table != after.table {
        w.alarm("C15.as_if_not_made", "poller-registration-changed", format!("{}: epoll table {:?} -> {:?}", what, before.table, after.table));
    }
}

pub fn insert(spec: &SourceSpec, ctx: Ctx) -> Option<Uid> {
    insert_inner(spec, ctx, None)
}

/// insert a Generic source over an fd that an earlier source or adapter released
pub fn insert_with_fd(spec: &SourceSpec, fdx: FdX, peer: Option<OwnedFd>, ctx: Ctx) -> Option<Uid> {
    let raw = fdx.raw;
    let uid = insert_inner(spec, ctx, Some((fdx, peer)))?;
    w(|w| {
        if w.srcs[uid].st != St::Enabled {
            w.harness_fault = None;
            w.alarm("C16.released_fd_reusable", "released-fd-still-registered", format!("fd {} was released by its source/adapter but inserting it again failed", raw));
        }
    });
    Some(uid)
}

/// what a callback closure captures when it owns an adapter: dropping the closure drops the adapter
struct OwnedCell(std::rc::Rc<std::cell::RefCell<Option<OwnedAd>>>);

impl Drop for OwnedCell {
    fn drop(&mut self) {
        let ad = self.0.borrow_mut().take();
        drop(ad);
    }
}

fn insert_inner(spec: &SourceSpec, ctx: Ctx, given: Option<(FdX, Option<OwnedFd>)>) -> Option<Uid> {
    let (uid, handle, dup_of, depth) = w(|w| {
        let uid = w.srcs.len();
        w.srcs.push(Src::new(uid, spec.clone()));
        // a live registered fd for the "duplicate" fault
        let dup = w.srcs.iter().filter(|s| s.st == St::Enabled).flat_map(|s| s.fds.iter()).find(|c| c.child == ChildSt::Kept).map(|c| c.src_raw);
        (uid, w.handle.clone(), dup, w.depth)
    });
    let handle = handle?;
    if depth > 3 {
        return None;
    }
    let mut spec = spec.clone();
    if spec.bad_fd == Some(BadFd::Duplicate) && dup_of.is_none() {
        spec.bad_fd = None;
    }
    // build outside the world borrow (make_ping etc. are plain constructors)
    let mut tmp = Src::new(uid, spec.clone());
    let inner = build_inner(uid, &spec, &mut tmp, dup_of, given);
    w(|w| {
        let s = &mut w.srcs[uid];
        s.spec = spec.clone();
        s.ping_handles = std::mem::take(&mut tmp.ping_handles);
        s.senders = std::mem::take(&mut tmp.senders);
        s.deadline = tmp.deadline;
        s.fds = std::mem::take(&mut tmp.fds);
        s.sched = tmp.sched.take();
        s.stream = tmp.stream.take();
        w.cov_kinds |= exec::kind_bit(&spec.kind);
        if spec.lifecycle {
            w.cov_kinds |= 1 << 20;
        }
        w.count("insert");
        w.tr(|| format!("insert #{} {:?}{}{}", uid, spec.kind, if spec.lifecycle { " +lifecycle" } else { "" }, if spec.fault.is_some() || spec.bad_fd.is_some() { " +fault" } else { "" }));
    });
    drop(tmp);
    // a cause that exists before the insertion
    if spec.ready_at_insert {
        super::ops::make_cause(uid);
    }
    let before = snapshot(&handle);
    let prev_ctx = w(|w| std::mem::replace(&mut w.reg_ctx, RegCtx::Op(uid)));
    w(|w| w.depth += 1);
    let guard = CbGuard(uid);
    // some callbacks own an Async adapter of this loop: it goes away with the callback
    let owned_adapter: Option<OwnedCell> = if spec.owns_adapter {
        let (a, b) = sysx::socket_pair();
        let raw = a.as_raw_fd();
        handle.adapt_io(FdX::named(raw)).ok().map(|ad| OwnedCell(std::rc::Rc::new(std::cell::RefCell::new(Some(OwnedAd { ad: Some(ad), keep: Some(a), _peer: b, raw })))))
    } else {
        None
    };
    if let Some(o) = &owned_adapter {
        let raw = o.0.borrow().as_ref().map(|x| x.raw).unwrap_or(-1);
        let weak = std::rc::Rc::downgrade(&o.0);
        w(|w| {
            w.owned_fds.push(raw);
            w.owned_cells.push(weak);
            w.count("callback_owns_adapter");
        });
    }
    let (owned_a, owned_b) = if spec.lifecycle { (None, owned_adapter) } else { (owned_adapter, None) };
    let res: Result<calloop::RegistrationToken, (calloop::Error, Option<Uid>)> = if spec.lifecycle {
        let zoo: Zoo<true> = Zoo { uid, inner, synth_token: None, registered: false };
        let cb = move |ev: Ev, _: &mut (), _: &mut ()| {
            let _g = &guard;
            let _a = &owned_b;
            exec::on_callback(uid, ev)
        };
        if spec.via_insert {
            handle.insert_source(zoo, cb).map_err(|e| {
                let back = e.inserted.uid;
                (e.error, Some(back))
            })
        } else {
            let d = Dispatcher::new(zoo, cb);
            let r = handle.register_dispatcher(d.clone());
            match r {
                Ok(t) => {
                    w(|w| w.srcs[uid].disp = Some(DispZ::L(d)));
                    Ok(t)
                }
                Err(e) => Err((e, None)),
            }
        }
    } else {
        let zoo: Zoo<false> = Zoo { uid, inner, synth_token: None, registered: false };
        let cb = move |ev: Ev, _: &mut (), _: &mut ()| {
            let _g = &guard;
            let _a = &owned_a;
            exec::on_callback(uid, ev)
        };
        if spec.via_insert {
            handle.insert_source(zoo, cb).map_err(|e| {
                let back = e.inserted.uid;
                (e.error, Some(back))
            })
        } else {
            let d = Dispatcher::new(zoo, cb);
            let r = handle.register_dispatcher(d.clone());
            match r {
                Ok(t) => {
                    w(|w| w.srcs[uid].disp = Some(DispZ::N(d)));
                    Ok(t)
                }
                Err(e) => Err((e, None)),
            }
        }
    };
    let after = snapshot(&handle);
    w(|w| {
        w.depth -= 1;
        w.reg_ctx = prev_ctx;
        let in_dispatch = w.in_dispatch;
        let d = w.dispatch_no;
        match &res {
            Ok(t) => {
                let key = t.verif_key();
                let (_, version, _) = calloop::verif::unpack(key);
                if version > 0 {
                    w.slot_reuses += 1;
                    w.count("slot_reuse");
                }
                // the token of a new registration must differ from every token issued before
                let clash = w.srcs.iter().any(|o| o.uid != uid && o.token.map(|x| x.verif_key()) == Some(key));
                let s = &mut w.srcs[uid];
                s.token = Some(*t);
                s.st = St::Enabled;
                if in_dispatch {
                    s.touched_at = d;
                }
                if clash {
                    w.alarm("C06.dead_token", "token-issued-twice", format!("source #{} got registration key {:#x} which an earlier source also holds", uid, key));
                }
                if expected_to_fail(&spec) {
                    w.alarm("C15.err_returned", "failing-registration-reported-ok", format!("insertion of #{} returned Ok although its registration failed", uid));
                }
            }
            Err((e, back)) => {
                w.count("insert_failed");
                w.srcs[uid].st = St::Rejected;
                w.had_reg_failure = true;
                w.judge_c16 = false;
                if let Some(b) = back {
                    if *b != uid {
                        w.alarm("C15.source_handed_back", "other-source-returned", format!("InsertError of #{} hands back source #{}", uid, b));
                    }
                }
                if !expected_to_fail(&spec) {
                    w.harness_fault = Some(format!("insertion of #{} failed without an injected fault: {}", uid, e));
                }
                // (a source that fails late without undoing its own registrations left them there itself)
                if !spec.fault.map(|f| f.sloppy && !f.before).unwrap_or(false) {
                    check_as_if_not_made(w, &format!("failed insertion of #{} ({})", uid, e), &before, &after);
                }
                w.tr(|| format!("  insertion of #{} failed: {}", uid, e));
            }
        }
    });
    let _ = ctx;
    Some(uid)
}
