//! History generator: random from a seed, biased per property by a profile.

use super::spec::*;
use crate::Rng;

#[derive(Clone, Debug)]
pub struct Profile {
    pub name: String,
    /// weights: ping, chan, sync chan, timer, gen, exec, stream, comp, comp-transient
    pub kinds: [u32; 9],
    /// weight of the user-written raw source
    pub raw: u32,
    pub steps: (u64, u64),
    pub max_sources: usize,
    /// weight of each outside step class:
    /// insert, remove, disable, enable, update, cause, dispatch, sleep, idle, adapter, probe/reinsert, drop-handle, synth
    pub outside: [u32; 13],
    /// same classes (dispatch/sleep unused) inside callbacks
    pub incb: [u32; 13],
    /// chance (percent) that a callback-program entry has operations / a non-Continue return
    pub p_cb_ops: u64,
    pub p_cb_ret: u64,
    pub prog_len: u64,
    pub max_cb_ops: u64,
    /// weights of returns: Reregister, Disable, Remove, Err
    pub rets: [u32; 4],
    pub p_lifecycle: u64,
    pub p_fault: u64,
    pub p_bad_fd: u64,
    pub p_via_insert: u64,
    pub p_ready_at_insert: u64,
    pub p_child_ret: u64,
    pub timer_dls: Vec<Dl>,
    pub bad_adapters: bool,
    pub p_dead_sel: u64,
    pub p_me_sel: u64,
    pub update_disabled: bool,
}

fn base(name: &str) -> Profile {
    Profile {
        name: name.into(),
        kinds: [4, 3, 1, 4, 6, 2, 1, 2, 0],
        raw: 2,
        steps: (10, 40),
        max_sources: 6,
        outside: [10, 5, 4, 4, 3, 22, 25, 1, 0, 0, 2, 2, 0],
        incb: [4, 5, 4, 3, 3, 8, 0, 0, 0, 0, 1, 1, 0],
        p_cb_ops: 35,
        p_cb_ret: 15,
        prog_len: 4,
        max_cb_ops: 3,
        rets: [3, 3, 3, 0],
        p_lifecycle: 10,
        p_fault: 0,
        p_bad_fd: 0,
        p_via_insert: 15,
        p_ready_at_insert: 20,
        p_child_ret: 0,
        timer_dls: vec![Dl::Past, Dl::Now, Dl::Ms(1), Dl::Ms(3), Dl::Ms(8), Dl::Far],
        bad_adapters: false,
        p_dead_sel: 10,
        p_me_sel: 35,
        update_disabled: false,
    }
}

pub fn profile_for(prop: &str, variant: u64, thorough: bool) -> Profile {
    let mut p = base(prop);
    match prop {
        "C01" => {
            p.kinds = if variant % 4 == 0 { [2, 1, 0, 1, 2, 0, 0, 1, 14] } else { [4, 3, 1, 3, 6, 1, 1, 4, 0] };
            p.max_sources = 4;
            p.outside = [14, 9, 3, 3, 3, 24, 26, 1, 0, 0, 3, 2, 0];
            p.incb = [6, 8, 4, 3, 3, 8, 0, 0, 0, 0, 3, 1, 0];
            p.p_cb_ops = 45;
            p.max_cb_ops = 4;
            p.p_dead_sel = 20;
            p.p_child_ret = 50;
            p.rets = [3, 3, 3, if variant % 3 == 2 { 2 } else { 0 }];
            p.timer_dls = vec![Dl::Past, Dl::Now, Dl::Ms(1), Dl::Ms(3), Dl::Ms(8), Dl::Far, Dl::Unrep];
            if variant % 4 == 0 {
                p.outside = [10, 4, 2, 2, 2, 40, 30, 0, 0, 0, 1, 1, 0];
                p.p_lifecycle = if variant == 0 { 30 } else { 0 };
            }
        }
        "C02" => {
            p.kinds = [4, 3, 1, 4, 12, 2, 1, 3, if variant % 4 == 1 { 5 } else { 0 }];
            p.p_child_ret = if variant % 4 == 1 { 30 } else { 0 };
            p.max_sources = if thorough { 96 } else { 24 };
            p.steps = if thorough { (20, 140) } else { (15, 60) };
            p.outside = [18, 2, 3, 3, 3, 36, 25, 1, 0, 0, 0, 1, 0];
            p.p_cb_ops = 20;
            p.p_ready_at_insert = 50;
        }
        "C03" => {
            p.kinds = [10, 0, 0, 0, 1, 0, 0, 0, 0];
            p.outside = [8, 2, 5, 5, 2, 30, 30, 1, 0, 0, 0, 8, 0];
            p.p_cb_ops = 25;
        }
        "C04" => {
            p.kinds = [1, 8, 4, 0, 1, 0, 0, 0, 0];
            p.outside = [8, 2, 4, 4, 2, 34, 30, 1, 0, 0, 0, 8, 0];
            p.p_cb_ops = 25;
        }
        "C05" => {
            p.kinds = [4, 0, 0, 14, 3, 0, 0, 0, 0];
            p.max_sources = 10;
            p.outside = [12, 3, 5, 5, 8, 18, 26, 6, 0, 0, 0, 0, 0];
            p.incb = [3, 4, 5, 4, 10, 6, 0, 0, 0, 0, 0, 0, 0];
            p.p_cb_ops = 50;
            p.rets = [3, 3, 2, if variant % 3 == 0 { 3 } else { 0 }];
            p.timer_dls = vec![Dl::Past, Dl::Past, Dl::Now, Dl::Ms(1), Dl::Ms(2), Dl::Ms(5), Dl::Ms(5), Dl::Ms(12), Dl::Far, Dl::Unrep];
        }
        "C06" => {
            p.kinds = [4, 3, 1, 4, 6, 2, 2, 2, 0];
            p.max_sources = 5;
            p.outside = [14, 12, 3, 3, 2, 18, 24, 1, 2, 0, 8, 6, 0];
            p.incb = [5, 10, 3, 2, 2, 6, 0, 0, 1, 0, 2, 3, 0];
            p.p_cb_ops = 45;
            p.p_cb_ret = 25;
            p.rets = [1, 1, 6, 0];
            p.p_dead_sel = 25;
        }
        "C07" => {
            p.outside = [10, 2, 12, 12, 6, 24, 26, 1, 0, 0, 2, 1, 0];
            p.incb = [2, 2, 10, 8, 5, 8, 0, 0, 0, 0, 1, 0, 0];
            p.p_cb_ops = 45;
            p.rets = [2, 6, 1, 0];
            p.update_disabled = true;
            p.kinds = [4, 3, 1, 7, 6, 2, 1, 2, 0];
            p.timer_dls = vec![Dl::Past, Dl::Now, Dl::Ms(1), Dl::Ms(3), Dl::Ms(8), Dl::Far, Dl::Unrep, Dl::Unrep];
        }
        "C08" => {
            p.kinds = [4, 3, 1, 4, 5, 3, 2, 2, 0];
            p.outside = [12, 4, 4, 4, 3, 22, 26, 1, 5, 3, 2, 2, 1];
            p.incb = [8, 6, 6, 5, 5, 10, 0, 0, 5, 4, 2, 3, 1];
            p.p_cb_ops = 70;
            p.max_cb_ops = 6;
            p.prog_len = 5;
            p.p_lifecycle = 15;
        }
        "C09" => {
            p.kinds = [4, 3, 1, 4, 6, 2, 1, 5, 2];
            p.p_child_ret = 25;
            p.p_lifecycle = 25;
            p.outside = [10, 3, 4, 4, 4, 26, 28, 1, 0, 0, 0, 1, 4];
            p.incb = [5, 6, 8, 3, 8, 6, 0, 0, 0, 0, 0, 0, 1];
            p.p_cb_ops = 50;
            p.p_cb_ret = 45;
            p.rets = [4, 4, 3, if variant % 2 == 0 { 4 } else { 0 }];
            p.p_me_sel = 60;
        }
        "C10" => {
            p.kinds = [2, 1, 0, 2, 2, 8, 8, 1, 0];
            p.outside = [10, 4, 4, 4, 3, 34, 28, 1, 0, 0, 0, 4, 0];
            p.incb = [4, 4, 3, 3, 2, 10, 0, 0, 0, 0, 0, 2, 0];
        }
        "C13" => {
            p.kinds = [6, 2, 0, 3, 3, 0, 0, 0, 0];
            p.outside = [8, 2, 2, 2, 1, 20, 28, 1, 22, 0, 0, 0, 0];
            p.incb = [2, 2, 2, 1, 1, 5, 0, 0, 14, 0, 0, 0, 0];
            p.p_cb_ops = 45;
            p.rets = [1, 1, 1, if variant % 3 == 0 { 4 } else { 0 }];
        }
        "C14" => {
            p.kinds = [6, 2, 0, 3, 4, 0, 0, 3, 0];
            p.p_lifecycle = 60;
            p.outside = [12, 5, 6, 6, 6, 20, 26, 1, 0, 0, 2, 1, 10];
            p.incb = [3, 4, 4, 3, 4, 6, 0, 0, 0, 0, 1, 0, 3];
            p.p_fault = if variant % 2 == 0 { 20 } else { 0 };
            p.rets = [3, 3, 3, 0];
        }
        "C15" => {
            p.kinds = [4, 3, 1, 5, 6, 1, 1, 2, 0];
            p.p_fault = 30;
            p.p_bad_fd = 25;
            p.p_lifecycle = 25;
            p.outside = [16, 4, 5, 5, 5, 20, 26, 2, 1, 4, 3, 1, 1];
            p.incb = [5, 3, 3, 3, 3, 6, 0, 0, 0, 2, 1, 0, 0];
            p.rets = [2, 2, 2, 6];
            p.p_cb_ret = 25;
            p.bad_adapters = true;
            p.timer_dls = vec![Dl::Past, Dl::Now, Dl::Ms(1), Dl::Ms(3), Dl::Far];
        }
        "C16" => {
            p.kinds = [3, 2, 1, 1, 12, 2, 1, 4, 0];
            p.outside = [14, 8, 7, 7, 5, 14, 20, 0, 0, 10, 8, 3, 0];
            p.incb = [4, 5, 4, 3, 3, 5, 0, 0, 0, 4, 2, 1, 0];
            p.p_cb_ops = 35;
            p.p_lifecycle = 5;
        }
        _ => {}
    }
    p
}

fn gen_kind(rng: &mut Rng, p: &Profile) -> Kind {
    let total: u32 = p.kinds.iter().sum();
    if p.raw > 0 && rng.below((total + p.raw) as u64) < p.raw as u64 {
        return Kind::Raw;
    }
    match rng.weighted(&p.kinds) {
        0 => Kind::Ping,
        1 => Kind::Chan { bound: None },
        2 => Kind::Chan { bound: Some(*rng.pick(&[1u8, 2, 8, 255])) },
        3 => Kind::Timer { dl: *rng.pick(&p.timer_dls) },
        4 => {
            let fd = *rng.pick(&[FdKind::Pipe, FdKind::Eventfd, FdKind::Socket]);
            let int = *rng.pick(&[Int::Read, Int::Read, Int::Read, Int::Write, Int::Both, Int::Empty]);
            let md = *rng.pick(&[Md::Level, Md::Level, Md::Edge, Md::OneShot]);
            Kind::Gen { fd, int, md }
        }
        5 => Kind::Exec,
        6 => Kind::Stream,
        7 => Kind::Comp { n: rng.range(1, 6) as u8, transient: false, timer: if rng.chance(1, 3) { Some(*rng.pick(&[Dl::Past, Dl::Now, Dl::Ms(1), Dl::Ms(3), Dl::Ms(8), Dl::Far])) } else { None } },
        _ => Kind::Comp { n: rng.range(2, 4) as u8, transient: true, timer: None },
    }
}

fn gen_sel(rng: &mut Rng, p: &Profile, incb: bool) -> Sel {
    let r = rng.below(100);
    if incb && r < p.p_me_sel {
        Sel::Me
    } else if r >= 100 - p.p_dead_sel {
        Sel::Dead(rng.below(8) as u8)
    } else if incb && rng.chance(1, 2) {
        Sel::Other(rng.below(16) as u8)
    } else {
        Sel::Live(rng.below(16) as u8)
    }
}

fn gen_live_sel(rng: &mut Rng, p: &Profile, incb: bool) -> Sel {
    match gen_sel(rng, p, incb) {
        Sel::Dead(i) => Sel::Live(i),
        s => s,
    }
}

fn gen_cause(rng: &mut Rng, p: &Profile, incb: bool) -> Op {
    let sel = gen_live_sel(rng, p, incb);
    let c = rng.below(6) as u8;
    match rng.weighted(&[8, 6, 10, 3, 2, 2, 3, 3, 3, 2, 1]) {
        0 if p.name == "C05" && rng.chance(1, 4) => Op::Wakeup,
        0 if matches!(p.name.as_str(), "C02" | "C08" | "C13") && rng.chance(1, 10) => Op::Stop,
        0 => Op::Ping(sel),
        1 if p.name == "C02" && rng.chance(1, 12) => Op::SendBurst(sel),
        1 => Op::Send(sel),
        2 if !incb && matches!(p.name.as_str(), "C16" | "C02" | "C07") && rng.chance(1, 6) => Op::Retarget(sel, *rng.pick(&[Int::Read, Int::Read, Int::Write, Int::Both]), *rng.pick(&[Md::Level, Md::Edge, Md::OneShot])),
        2 => Op::WriteFd(sel, c),
        3 => Op::DrainFd(sel, c),
        4 => Op::FillFd(sel, c),
        5 => Op::UnfillFd(sel, c),
        6 => Op::SetDeadline(sel, *rng.pick(&p.timer_dls)),
        7 => Op::Schedule(sel, rng.below(4) as u8),
        8 => Op::WakeTask(sel, rng.below(8) as u8),
        9 if matches!(p.name.as_str(), "C10" | "C02") && rng.chance(1, 10) => Op::StreamBurst(sel),
        9 if rng.chance(1, 3) => Op::StreamPushSelfWake(sel),
        9 => Op::StreamPush(sel),
        _ => Op::ClosePeer(sel, c),
    }
}

fn gen_op(rng: &mut Rng, p: &Profile, incb: bool, depth: u32) -> Option<Op> {
    let ws = if incb { &p.incb } else { &p.outside };
    let mut ws = *ws;
    ws[6] = 0;
    ws[7] = 0;
    if depth >= 3 {
        ws[0] = 0;
        ws[8] = 0;
    }
    if ws.iter().all(|w| *w == 0) {
        return None;
    }
    Some(match rng.weighted(&ws) {
        0 => Op::Insert(Box::new(gen_source(rng, p, depth + 1))),
        1 => Op::Remove(gen_sel(rng, p, incb)),
        2 => Op::Disable(gen_sel(rng, p, incb)),
        3 => {
            let s = match gen_sel(rng, p, incb) {
                Sel::Me => Sel::Other(rng.below(16) as u8),
                s => s,
            };
            Op::Enable(s)
        }
        4 => Op::Update(gen_sel(rng, p, incb)),
        5 => gen_cause(rng, p, incb),
        8 => match rng.below(4) {
            0 => Op::CancelIdle(rng.below(8) as u8),
            1 => Op::DropIdleHandle(rng.below(8) as u8),
            _ => {
                let mut ops = vec![];
                if depth < 3 && rng.chance(p.p_cb_ops, 100) {
                    for _ in 0..rng.range(1, 2) {
                        if let Some(o) = gen_op(rng, p, true, depth + 1) {
                            if !matches!(o, Op::Remove(Sel::Me) | Op::Disable(Sel::Me) | Op::Update(Sel::Me)) {
                                ops.push(o);
                            }
                        }
                    }
                }
                Op::InsertIdle(Box::new(IdleSpec { ops }))
            }
        },
        9 => match rng.below(5) {
            0 | 1 => {
                if p.bad_adapters && rng.chance(1, 2) {
                    Op::Adapt(*rng.pick(&[AdaptFd::RegularFile, AdaptFd::Duplicate]))
                } else {
                    Op::Adapt(*rng.pick(&[AdaptFd::SocketBlocking, AdaptFd::SocketNonblocking]))
                }
            }
            2 | 3 => Op::AdapterDrop(rng.below(4) as u8),
            _ => Op::AdapterIntoInner(rng.below(4) as u8),
        },
        10 if p.name == "C16" && !incb && rng.chance(1, 4) => Op::UnwrapChild(gen_live_sel(rng, p, incb), rng.below(6) as u8),
        10 if matches!(p.name.as_str(), "C14" | "C07") => Op::EnableAgain(gen_live_sel(rng, p, incb)),
        10 if p.name == "C15" && rng.chance(1, 3) => Op::EnableAgain(gen_live_sel(rng, p, incb)),
        10 if matches!(p.name.as_str(), "C15" | "C02" | "C08") && rng.chance(2, 3) => Op::RegisterAgain(gen_live_sel(rng, p, incb)),
        10 => match rng.below(5) {
            0 | 1 => Op::ProbeDead,
            2 => Op::Churn(*rng.pick(&[1u16, 3, 254, 255, 256, 257, 300, 511, 512])),
            _ => Op::Reinsert(rng.below(4) as u8),
        },
        11 => match rng.below(4) {
            0 => Op::DropPing(gen_live_sel(rng, p, incb)),
            1 => Op::ClonePing(gen_live_sel(rng, p, incb)),
            2 => Op::DropSender(gen_live_sel(rng, p, incb)),
            _ => Op::StreamEnd(gen_live_sel(rng, p, incb)),
        },
        12 => Op::ArmSynth(gen_live_sel(rng, p, incb)),
        _ => gen_cause(rng, p, incb),
    })
}

fn gen_ret(rng: &mut Rng, p: &Profile) -> Ret {
    if rng.chance(p.p_cb_ret, 100) && p.rets.iter().any(|w| *w > 0) {
        match rng.weighted(&p.rets) {
            0 => Ret::Reregister,
            1 => Ret::Disable,
            2 => Ret::Remove,
            _ => Ret::Err,
        }
    } else {
        Ret::Continue
    }
}

pub fn gen_source(rng: &mut Rng, p: &Profile, depth: u32) -> SourceSpec {
    let kind = gen_kind(rng, p);
    let mut prog = Vec::new();
    let n = rng.below(p.prog_len + 1);
    for _ in 0..n {
        let mut ops = Vec::new();
        if depth < 3 && rng.chance(p.p_cb_ops, 100) {
            for _ in 0..rng.range(1, p.max_cb_ops) {
                if let Some(o) = gen_op(rng, p, true, depth) {
                    ops.push(o);
                }
            }
        }
        let tact = match rng.below(10) {
            0 | 1 => TAct::Drop,
            2 | 3 | 4 => TAct::ToInstant(*rng.pick(&p.timer_dls)),
            5 => TAct::ToDuration(rng.range(0, 12) as u16),
            6 => TAct::ToDurationMax,
            _ => TAct::ToInstant(Dl::Far),
        };
        let child_ret = if rng.chance(p.p_child_ret, 100) { *rng.pick(&[Ret::Remove, Ret::Disable, Ret::Reregister]) } else { Ret::Continue };
        prog.push(CbStep { ops, ret: gen_ret(rng, p), tact, child_ret });
    }
    let is_gen = matches!(kind, Kind::Gen { .. });
    let fault = if rng.chance(p.p_fault, 100) {
        Some(Fault { on: *rng.pick(&[RegCall::Register, RegCall::Register, RegCall::Reregister, RegCall::Unregister]), nth: rng.below(2) as u8, before: rng.chance(1, 2), sloppy: rng.chance(1, 4) })
    } else {
        None
    };
    let bad_fd = if is_gen && fault.is_none() && rng.chance(p.p_bad_fd, 100) { Some(*rng.pick(&[BadFd::RegularFile, BadFd::Duplicate, BadFd::Closed])) } else { None };
    SourceSpec {
        kind,
        lifecycle: rng.chance(p.p_lifecycle, 100),
        prog,
        fault,
        via_insert: rng.chance(p.p_via_insert, 100),
        bad_fd,
        ready_at_insert: rng.chance(p.p_ready_at_insert, 100),
        owns_adapter: matches!(p.name.as_str(), "C06" | "C08" | "C16") && rng.chance(1, 12),
        bs_fail: if matches!(p.name.as_str(), "C15" | "C14") && rng.chance(1, 6) { Some(rng.below(4) as u8) } else { None },
    }
}

/// C01: a source whose event is already in the batch is removed by an earlier callback, its slot is
/// reused k times within that callback and finally taken by a newcomer that has no cause of its own
fn slot_reuse_scenario(rng: &mut Rng, p: &Profile) -> History {
    let plain = |kind: Kind, ready: bool, prog: Vec<CbStep>| SourceSpec { kind, lifecycle: false, prog, fault: None, via_insert: false, bad_fd: None, ready_at_insert: ready, owns_adapter: false, bs_fail: None };
    let k = *rng.pick(&[1u16, 2, 3, 17, 255, 256, 257, 511, 512, 513]);
    let newcomer = match rng.below(3) {
        0 => Kind::Gen { fd: FdKind::Pipe, int: Int::Read, md: Md::Level },
        1 => Kind::Gen { fd: FdKind::Socket, int: Int::Read, md: Md::Edge },
        _ => Kind::Comp { n: 2, transient: false, timer: None },
    };
    let victim = match rng.below(3) {
        0 => Kind::Ping,
        1 => Kind::Gen { fd: FdKind::Eventfd, int: Int::Read, md: Md::Level },
        _ => Kind::Timer { dl: Dl::Past },
    };
    let killer_prog = vec![CbStep { ops: vec![Op::Remove(Sel::Other(0)), Op::Churn(k - 1), Op::Insert(Box::new(plain(newcomer, false, vec![])))], ret: Ret::Continue, tact: TAct::ToInstant(Dl::Far), child_ret: Ret::Continue }];
    let killer = plain(Kind::Gen { fd: FdKind::Eventfd, int: Int::Read, md: Md::Level }, true, killer_prog);
    let mut steps = Vec::new();
    // either insertion order: which of the two is processed first is up to the poller
    if rng.chance(1, 2) {
        steps.push(Step::Op(Op::Insert(Box::new(plain(victim, true, vec![])))));
        steps.push(Step::Op(Op::Insert(Box::new(killer))));
    } else {
        steps.push(Step::Op(Op::Insert(Box::new(killer))));
        steps.push(Step::Op(Op::Insert(Box::new(plain(victim, true, vec![])))));
    }
    steps.push(Step::Sleep(1));
    steps.push(Step::Dispatch(0));
    steps.push(Step::Op(Op::ProbeDead));
    steps.push(Step::Dispatch(0));
    History { profile: p.name.clone(), steps, end: rng.below(2) as u8 }
}

/// C02: many sources ready at once (up to the poller's batch size of 1024): all of them are served by one dispatch
fn many_ready_scenario(rng: &mut Rng, p: &Profile, n: usize) -> History {
    let mut steps = Vec::new();
    for i in 0..n {
        let md = *rng.pick(&[Md::Level, Md::Level, Md::Edge, Md::OneShot]);
        let kind = if i % 7 == 0 { Kind::Ping } else { Kind::Gen { fd: FdKind::Eventfd, int: Int::Read, md } };
        steps.push(Step::Op(Op::Insert(Box::new(SourceSpec { kind, lifecycle: false, prog: vec![], fault: None, via_insert: true, bad_fd: None, ready_at_insert: true, owns_adapter: false, bs_fail: None }))));
    }
    steps.push(Step::Dispatch(0));
    steps.push(Step::Dispatch(0));
    History { profile: p.name.clone(), steps, end: 0 }
}

/// C08/C13: many idle callbacks due in one dispatch (inserted from a source callback or from outside), a good part
/// of which operate on the loop themselves: insert further idles and sources, ping, remove
fn idle_burst_scenario(rng: &mut Rng, p: &Profile) -> History {
    let n = rng.range(5, 12);
    let mut idles = Vec::new();
    for _ in 0..n {
        let mut ops = vec![];
        if rng.chance(1, 2) {
            for _ in 0..rng.range(1, 2) {
                if let Some(o) = gen_op(rng, p, true, 2) {
                    if !matches!(o, Op::Remove(Sel::Me) | Op::Disable(Sel::Me) | Op::Update(Sel::Me)) {
                        ops.push(o);
                    }
                }
            }
            if rng.chance(1, 2) {
                ops.push(Op::InsertIdle(Box::new(IdleSpec { ops: vec![] })));
            }
        }
        idles.push(Op::InsertIdle(Box::new(IdleSpec { ops })));
    }
    let from_cb = rng.chance(1, 2);
    let prog = if from_cb { vec![CbStep { ops: idles.clone(), ret: Ret::Continue, tact: TAct::ToInstant(Dl::Far), child_ret: Ret::Continue }] } else { vec![] };
    let mut steps = vec![Step::Op(Op::Insert(Box::new(SourceSpec { kind: Kind::Ping, lifecycle: false, prog, fault: None, via_insert: rng.chance(1, 2), bad_fd: None, ready_at_insert: false, owns_adapter: false, bs_fail: None })))];
    for _ in 0..rng.below(3) {
        steps.push(Step::Op(Op::Insert(Box::new(gen_source(rng, p, 1)))));
    }
    if from_cb {
        steps.push(Step::Op(Op::Ping(Sel::Live(0))));
    } else {
        steps.extend(idles.into_iter().map(Step::Op));
    }
    for _ in 0..3 {
        steps.push(Step::Dispatch(0));
    }
    for _ in 0..rng.below(6) {
        if let Some(op) = gen_op(rng, p, false, 0) {
            steps.push(Step::Op(op));
        }
        if rng.chance(1, 2) {
            steps.push(Step::Dispatch(0));
        }
    }
    steps.push(Step::Dispatch(0));
    History { profile: p.name.clone(), steps, end: rng.below(2) as u8 }
}

/// C14/C15: a lifecycle source announces a synthetic event in the very dispatch in which the before_sleep of a
/// lifecycle source registered after it fails
fn synth_vs_failing_hook_scenario(rng: &mut Rng, p: &Profile) -> History {
    let life = |kind: Kind, bs_fail: Option<u8>| SourceSpec { kind, lifecycle: true, prog: vec![], fault: None, via_insert: false, bad_fd: None, ready_at_insert: false, owns_adapter: false, bs_fail };
    if p.name == "C14" && rng.chance(1, 2) {
        // no failure: the announcing source is not the last lifecycle source, and the dispatch is given a long
        // timeout which the announced event must cut short
        let mut steps = vec![Step::Op(Op::Insert(Box::new(life(Kind::Ping, None))))];
        for _ in 0..rng.range(1, 3) {
            let k = match rng.below(3) {
                0 => Kind::Ping,
                1 => Kind::Timer { dl: Dl::Far },
                _ => Kind::Gen { fd: FdKind::Eventfd, int: Int::Read, md: Md::Level },
            };
            steps.push(Step::Op(Op::Insert(Box::new(life(k, None)))));
        }
        steps.push(Step::Op(Op::ArmSynth(Sel::Live(0))));
        steps.push(Step::Dispatch(3000));
        steps.push(Step::Dispatch(0));
        return History { profile: p.name.clone(), steps, end: rng.below(2) as u8 };
    }
    let k = rng.below(3) as u8;
    let mut steps = vec![];
    let announcer = match rng.below(3) {
        0 => Kind::Ping,
        1 => Kind::Timer { dl: Dl::Far },
        _ => Kind::Gen { fd: FdKind::Eventfd, int: Int::Read, md: Md::Level },
    };
    // (the announcer is the first lifecycle source of the history: selector Live(0) of ArmSynth)
    steps.push(Step::Op(Op::Insert(Box::new(life(announcer, None)))));
    steps.push(Step::Op(Op::Insert(Box::new(life(Kind::Ping, Some(k))))));
    for _ in 0..rng.below(2) {
        steps.push(Step::Op(Op::Insert(Box::new(gen_source(rng, p, 1)))));
    }
    for _ in 0..k {
        steps.push(Step::Dispatch(0));
    }
    steps.push(Step::Op(Op::ArmSynth(Sel::Live(0))));
    for _ in 0..3 {
        steps.push(Step::Dispatch(0));
    }
    for _ in 0..rng.below(5) {
        if let Some(op) = gen_op(rng, p, false, 0) {
            steps.push(Step::Op(op));
        }
        if rng.chance(1, 2) {
            steps.push(Step::Dispatch(0));
        }
    }
    steps.push(Step::Dispatch(0));
    History { profile: p.name.clone(), steps, end: rng.below(2) as u8 }
}

pub fn gen_history(rng: &mut Rng, p: &Profile) -> History {
    if matches!(p.name.as_str(), "C14" | "C15") && rng.chance(1, 40) {
        return synth_vs_failing_hook_scenario(rng, p);
    }
    if matches!(p.name.as_str(), "C08" | "C13") && rng.chance(1, 25) {
        return idle_burst_scenario(rng, p);
    }
    if p.name == "C01" && rng.chance(1, 10) {
        return slot_reuse_scenario(rng, p);
    }
    if p.name == "C02" && p.max_sources > 24 && rng.chance(1, 400) {
        let n = *rng.pick(&[300usize, 700, 1000, 1020]);
        return many_ready_scenario(rng, p, n);
    }
    let n = rng.range(p.steps.0, p.steps.1);
    let mut steps = Vec::new();
    let mut inserted = 0usize;
    // start with a few sources so that the history has something to act on
    for _ in 0..rng.range(1, 3.min(p.max_sources as u64)) {
        steps.push(Step::Op(Op::Insert(Box::new(gen_source(rng, p, 0)))));
        inserted += 1;
    }
    while (steps.len() as u64) < n {
        let mut ws = p.outside;
        if inserted >= p.max_sources {
            ws[0] = 0;
        }
        let cls = rng.weighted(&ws);
        match cls {
            6 => {
                if p.outside[12] > 0 && rng.chance(1, 8) {
                    steps.push(Step::DispatchNone);
                } else {
                    let nz = if p.name == "C05" { 3 } else { 8 };
                    steps.push(Step::Dispatch(if rng.chance(1, nz) { rng.range(1, 12) as u16 } else { 0 }));
                }
            }
            7 => steps.push(Step::Sleep(rng.range(1, 8) as u16)),
            _ => {
                let mut ws2 = [0u32; 13];
                ws2[cls] = 1;
                let mut q = p.clone();
                q.outside = ws2;
                if let Some(op) = gen_op(rng, &q, false, 0) {
                    if matches!(op, Op::Insert(_)) {
                        inserted += 1;
                    }
                    steps.push(Step::Op(op));
                }
            }
        }
    }
    // let pending causes drain
    for _ in 0..2 {
        steps.push(Step::Dispatch(0));
    }
    History { profile: p.name.clone(), steps, end: rng.below(2) as u8 }
}


/// C13: the idx-th history of the bounded-exhaustive family: every sequence of `len` symbols over
/// {insert a plain idle, an idle that inserts an idle, an idle that cancels the oldest / second idle with a handle,
///  cancel oldest / second, drop the oldest handle, dispatch, ping a source whose callback inserts an idle + dispatch,
///  ping a source whose processing fails + dispatch}
pub const C13_SYMBOLS: u64 = 10;
pub fn c13_enumerated(mut idx: u64, len: usize) -> History {
    let plain = |prog: Vec<CbStep>| SourceSpec { kind: Kind::Ping, lifecycle: false, prog, fault: None, via_insert: false, bad_fd: None, ready_at_insert: false, owns_adapter: false, bs_fail: None };
    let idle = |ops: Vec<Op>| Op::InsertIdle(Box::new(IdleSpec { ops }));
    let step = |ops: Vec<Op>, ret: Ret| CbStep { ops, ret, tact: TAct::ToInstant(Dl::Far), child_ret: Ret::Continue };
    let mut steps = vec![
        Step::Op(Op::Insert(Box::new(plain((0..len).map(|_| step(vec![idle(vec![])], Ret::Continue)).collect())))),
        Step::Op(Op::Insert(Box::new(plain((0..len).map(|_| step(vec![], Ret::Err)).collect())))),
    ];
    for _ in 0..len {
        let sym = idx % C13_SYMBOLS;
        idx /= C13_SYMBOLS;
        match sym {
            0 => steps.push(Step::Op(idle(vec![]))),
            1 => steps.push(Step::Op(idle(vec![idle(vec![])]))),
            2 => steps.push(Step::Op(idle(vec![Op::CancelIdle(0)]))),
            3 => steps.push(Step::Op(idle(vec![Op::CancelIdle(1)]))),
            4 => steps.push(Step::Op(Op::CancelIdle(0))),
            5 => steps.push(Step::Op(Op::CancelIdle(1))),
            6 => steps.push(Step::Op(Op::DropIdleHandle(0))),
            7 => steps.push(Step::Dispatch(0)),
            8 => {
                steps.push(Step::Op(Op::Ping(Sel::Live(0))));
                steps.push(Step::Dispatch(0));
            }
            _ => {
                steps.push(Step::Op(Op::Ping(Sel::Live(1))));
                steps.push(Step::Dispatch(0));
            }
        }
    }
    steps.push(Step::Dispatch(0));
    steps.push(Step::Dispatch(0));
    History { profile: "C13".into(), steps, end: (idx % 2) as u8 }
}
