//! Execution of the operations of a history, from outside a dispatch, from a source callback
//! or from an idle callback. Records the call before invoking and its result after returning.

use super::build;
use super::exec;
use super::run::check_released;
use super::spec::*;
use super::world::*;
use super::zoo::*;
use crate::sysx;
use calloop::LoopHandle;
use std::time::Duration;

#[derive(Clone, Copy, Debug, PartialEq, Eq)]
pub enum Ctx {
    Outside,
    Cb(Uid),
    Idle(usize),
}

#[derive(Clone, Debug, PartialEq)]
pub struct Snap {
    pub stats: Option<calloop::verif::LoopStats>,
    pub table: Vec<sysx::EpEntry>,
}

pub fn snapshot(h: &LoopHandle<'static, ()>) -> Snap {
    let epfd = w(|w| w.epfd);
    Snap { stats: h.verif_stats(), table: sysx::epoll_table(epfd) }
}

fn opcode(op: &Op) -> u64 {
    match op {
        Op::Insert(_) => 0,
        Op::Remove(_) => 1,
        Op::Disable(_) => 2,
        Op::Enable(_) => 3,
        Op::Update(_) => 4,
        Op::Ping(_) => 5,
        Op::Send(_) => 6,
        Op::DropSender(_) => 7,
        Op::DropPing(_) => 8,
        Op::ClonePing(_) => 9,
        Op::WriteFd(..) => 10,
        Op::DrainFd(..) => 11,
        Op::FillFd(..) => 12,
        Op::UnfillFd(..) => 13,
        Op::ClosePeer(..) => 14,
        Op::SetDeadline(..) => 15,
        Op::Schedule(..) => 16,
        Op::WakeTask(..) => 17,
        Op::StreamPush(_) => 18,
        Op::StreamEnd(_) => 19,
        Op::ArmSynth(_) => 20,
        Op::InsertIdle(_) => 21,
        Op::CancelIdle(_) => 22,
        Op::DropIdleHandle(_) => 23,
        Op::Adapt(_) => 24,
        Op::AdapterDrop(_) => 25,
        Op::AdapterIntoInner(_) => 26,
        Op::Reinsert(_) => 27,
        Op::ProbeDead => 28,
        Op::Churn(_) => 29,
        Op::SendBurst(_) => 30,
        Op::Wakeup => 31,
        Op::StreamPushSelfWake(_) => 32,
        Op::RegisterAgain(_) => 33,
        Op::Stop => 34,
        Op::Retarget(..) => 35,
        Op::StreamBurst(_) => 36,
        Op::EnableAgain(_) => 37,
        Op::UnwrapChild(..) => 38,
    }
}

fn resolve(w: &World, sel: Sel, ctx: Ctx, pred: &dyn Fn(&Src) -> bool) -> Option<Uid> {
    let me = match ctx {
        Ctx::Cb(u) => Some(u),
        _ => None,
    };
    match sel {
        Sel::Me => me.filter(|u| pred(&w.srcs[*u])),
        Sel::Live(i) => {
            let c: Vec<Uid> = w.srcs.iter().filter(|s| s.inserted() && pred(s)).map(|s| s.uid).collect();
            if c.is_empty() {
                None
            } else {
                Some(c[i as usize % c.len()])
            }
        }
        Sel::Other(i) => {
            let c: Vec<Uid> = w.srcs.iter().filter(|s| s.inserted() && Some(s.uid) != me && pred(s)).map(|s| s.uid).collect();
            if c.is_empty() {
                None
            } else {
                Some(c[i as usize % c.len()])
            }
        }
        Sel::Dead(i) => {
            let c: Vec<Uid> = w.srcs.iter().filter(|s| s.st == St::Removed && s.token.is_some()).map(|s| s.uid).collect();
            if c.is_empty() {
                None
            } else {
                Some(c[i as usize % c.len()])
            }
        }
    }
}

fn is_invalid_token(e: &calloop::Error) -> bool {
    matches!(e, calloop::Error::InvalidToken)
}

/// produce one cause for a source (used for "ready at insert" and by the cause operations)
pub fn make_cause(uid: Uid) {
    enum Todo {
        Ping(calloop::ping::Ping),
        Nothing,
    }
    let todo = w(|w| {
        let in_cb = w.cur_op_in_cb;
        let s = &mut w.srcs[uid];
        s.cause_from_cb |= in_cb;
        match s.spec.kind {
            Kind::Ping => match s.ping_handles.first().cloned() {
                Some(p) => {
                    s.pings += 1;
                    Todo::Ping(p)
                }
                None => Todo::Nothing,
            },
            _ => Todo::Nothing,
        }
    });
    match todo {
        Todo::Ping(p) => p.ping(),
        Todo::Nothing => {
            let kind = w(|w| w.srcs[uid].spec.kind.clone());
            match kind {
                Kind::Chan { .. } => send(uid),
                Kind::Gen { .. } | Kind::Comp { .. } | Kind::Raw => write_fd(uid, 0, Ctx::Outside),
                Kind::Stream => stream_push(uid),
                _ => {}
            }
        }
    }
}

fn send(uid: Uid) {
    // the message is recorded before the call; a refused message is taken back
    let (id, tx_kind) = w(|w| {
        let in_cb = w.cur_op_in_cb;
        w.srcs[uid].cause_from_cb |= in_cb;
        let id = ((uid as u64) << 32) | w.next_msg;
        w.next_msg += 1;
        let s = &mut w.srcs[uid];
        let k = match s.senders.first() {
            Some(ChanTx::A(t)) => Some(Ok(t.clone())),
            Some(ChanTx::S(t)) => Some(Err(t.clone())),
            None => None,
        };
        if k.is_some() {
            s.queue.push_back(id);
        }
        (id, k)
    });
    let ok = match tx_kind {
        Some(Ok(t)) => t.send(id).is_ok(),
        Some(Err(t)) => t.try_send(id).is_ok(),
        None => return,
    };
    w(|w| {
        if ok {
            w.count("send_ok");
        } else {
            let s = &mut w.srcs[uid];
            if let Some(pos) = s.queue.iter().position(|m| *m == id) {
                s.queue.remove(pos);
            }
            w.count("send_refused");
        }
        w.tr(|| format!("send {:#x} on channel #{} -> {}", id, uid, ok));
    })
}

fn stream_push(uid: Uid) {
    let wk = w(|w| {
        let in_cb = w.cur_op_in_cb;
        w.srcs[uid].cause_from_cb |= in_cb;
        let id = ((uid as u64) << 32) | w.next_msg;
        w.next_msg += 1;
        let st = w.srcs[uid].stream.clone()?;
        let mut s = st.borrow_mut();
        if s.ended {
            return None;
        }
        s.queue.push_back(id);
        s.pushed.push_back(id);
        w.count("stream_push");
        s.waker.take()
    });
    if let Some(wk) = wk {
        wk.wake();
    }
}

fn write_fd(uid: Uid, child: u8, ctx: Ctx) {
    w(|w| {
        let d = w.dispatch_no;
        let in_dispatch = w.in_dispatch;
        let s = &mut w.srcs[uid];
        if s.fds.is_empty() {
            return;
        }
        let dropped = s.src_drops > 0;
        let n = s.fds.len();
        let c = &mut s.fds[child as usize % n];
        if c.child == ChildSt::Gone {
            // the sub-source was dropped and its fd closed: the number may belong to somebody else by now
            return;
        }
        if dropped {
            // only the harness' own dup of an eventfd is still safe to use; the source's fd number is not
            if c.kind == FdKind::Eventfd {
                if let Some(p) = c.peer.as_ref() {
                    use std::os::fd::AsRawFd;
                    sysx::eventfd_add(p.as_raw_fd(), 1);
                }
            }
            return;
        }
        let Some(peer) = c.peer.as_ref() else { return };
        use std::os::fd::AsRawFd;
        let praw = peer.as_raw_fd();
        let was = exec::fd_ready_for(c);
        match (c.kind, c.int) {
            (FdKind::Pipe, Int::Write) => {
                // the source holds the write end: reading at the peer makes room
                sysx::drain_fd(praw);
            }
            (FdKind::Eventfd, _) => sysx::eventfd_add(praw, 1),
            _ => {
                sysx::write_fd(praw, b"x");
            }
        }
        let now = exec::fd_ready_for(c);
        if !was && now {
            c.edge_pending = true;
        }
        let _ = (d, in_dispatch, ctx);
        w.count("fd_write");
        w.tr(|| format!("write fd of #{} child {}", uid, child));
    })
}

fn drain_fd(uid: Uid, child: u8) {
    w(|w| {
        let d = w.dispatch_no;
        let in_dispatch = w.in_dispatch;
        let s = &mut w.srcs[uid];
        if s.src_drops > 0 || s.fds.is_empty() {
            return;
        }
        let n = s.fds.len();
        let c = &mut s.fds[child as usize % n];
        if c.child == ChildSt::Gone || (c.kind == FdKind::Pipe && c.int == Int::Write) {
            return;
        }
        sysx::drain_fd(c.src_raw);
        if !exec::fd_ready_for(c) {
            c.edge_pending = false;
        }
        if in_dispatch {
            c.modified_at = d;
        }
        w.count("fd_drain");
        w.tr(|| format!("drain fd of #{} child {}", uid, child));
    })
}

fn fill_fd(uid: Uid, child: u8, unfill: bool) {
    w(|w| {
        let d = w.dispatch_no;
        let in_dispatch = w.in_dispatch;
        let s = &mut w.srcs[uid];
        if s.src_drops > 0 || s.fds.is_empty() {
            return;
        }
        let n = s.fds.len();
        let c = &mut s.fds[child as usize % n];
        if c.child == ChildSt::Gone {
            return;
        }
        if !matches!(c.int, Int::Write | Int::Both) || c.kind == FdKind::Eventfd || (c.kind == FdKind::Pipe && c.int != Int::Write) {
            return;
        }
        use std::os::fd::AsRawFd;
        let Some(praw) = c.peer.as_ref().map(|p| p.as_raw_fd()) else { return };
        let was = exec::fd_ready_for(c);
        if unfill {
            sysx::drain_fd(praw);
        } else {
            let buf = [0u8; 65536];
            for _ in 0..64 {
                if sysx::write_fd(c.src_raw, &buf) <= 0 {
                    break;
                }
            }
        }
        let now = exec::fd_ready_for(c);
        if !was && now {
            c.edge_pending = true;
        }
        if was && !now {
            c.edge_pending = false;
        }
        if in_dispatch && !unfill {
            // readiness for one of the interests was taken away after the batch was collected
            c.modified_at = d;
        }
        w.count(if unfill { "fd_unfill" } else { "fd_fill" });
        w.tr(|| format!("{} fd of #{} child {}", if unfill { "unfill" } else { "fill" }, uid, child));
    })
}

pub fn exec_op(op: &Op, ctx: Ctx) {
    let prev_in_cb = w(|w| std::mem::replace(&mut w.cur_op_in_cb, ctx != Ctx::Outside));
    exec_op_inner(op, ctx);
    w(|w| w.cur_op_in_cb = prev_in_cb);
}

fn exec_op_inner(op: &Op, ctx: Ctx) {
    let Some(h) = w(|w| {
        if ctx != Ctx::Outside {
            w.cov_inops |= 1 << opcode(op);
            w.count("in_callback_op");
            if w.matrix {
                // (running source kind x operation) coverage for C08
                let runner = match ctx {
                    Ctx::Cb(u) => w.srcs[u].spec.kind.name(),
                    _ => "idle-callback",
                };
                let name = format!("{:?}", op);
                let name = name.split(|c: char| !c.is_alphanumeric()).next().unwrap_or("op").to_string();
                *w.cov_extra.entry(format!("in:{}:{}", runner, name)).or_insert(0) += 1;
            }
        }
        w.handle.clone()
    }) else {
        return;
    };
    let running = match ctx {
        Ctx::Cb(u) => Some(u),
        _ => None,
    };
    match op {
        Op::Insert(spec) => {
            if let Some(uid) = build::insert(spec, ctx) {
                let retry = w(|w| w.srcs[uid].st == St::Rejected && w.srcs[uid].spec.fault.is_some() && w.srcs[uid].spec.bad_fd.is_none());
                if retry {
                    // the insertion can be retried: same kind of source, no fault this time
                    let mut again = (**spec).clone();
                    again.fault = None;
                    if let Some(u2) = build::insert(&again, ctx) {
                        w(|w| {
                            w.count("insert_retry");
                            if w.srcs[u2].st != St::Enabled {
                                w.alarm("C15.retry_ok", "retry-rejected", format!("retry #{} of the rejected insertion #{} failed too", u2, uid));
                            }
                        });
                    }
                }
            }
        }
        Op::Remove(sel) => {
            let Some((uid, tok)) = w(|w| resolve(w, *sel, ctx, &|_| true).and_then(|u| w.srcs[u].token.map(|t| (u, t)))) else { return };
            let dead = w(|w| w.srcs[uid].st == St::Removed);
            let before = if dead && ctx == Ctx::Outside { Some(snapshot(&h)) } else { None };
            let prev = w(|w| {
                w.count("op_remove");
                w.tr(|| format!("remove(#{}){}", uid, if dead { " [dead token]" } else { "" }));
                std::mem::replace(&mut w.reg_ctx, RegCtx::Op(uid))
            });
            h.remove(tok);
            w(|w| {
                w.reg_ctx = prev;
                let d = w.dispatch_no;
                let in_dispatch = w.in_dispatch;
                let s = &mut w.srcs[uid];
                if s.inserted() {
                    s.st = St::Removed;
                    s.arm = None;
                    s.removed_dispatch = d;
                    s.release_due = true;
                    if s.in_process {
                        s.self_changed = true;
                    }
                    if in_dispatch {
                        s.touched_at = d;
                    }
                }
            });
            if let Some(b) = before {
                let a = snapshot(&h);
                if a != b {
                    w(|w| w.alarm("C06.dead_token", "remove-with-dead-token-had-an-effect", format!("remove() with the dead token of #{} changed the loop: {:?} -> {:?}", uid, b, a)));
                }
            }
            let (in_dispatch, victim_running) = w(|w| (w.in_dispatch, w.srcs[uid].in_process));
            if !in_dispatch {
                check_released(uid);
            } else if !victim_running && !dead {
                // removed from somebody else's callback: the loop lets go of it when remove() returns, exactly as it
                // does outside a dispatch (an event already collected for it changes nothing)
                let n0 = w(|w| {
                    w.count("release_check_inside_callback");
                    w.alarms.iter().filter(|a| a.clause == "C06.released" || a.clause == "C06.dropped_once").count()
                });
                check_released(uid);
                w(|w| {
                    let n1 = w.alarms.iter().filter(|a| a.clause == "C06.released" || a.clause == "C06.dropped_once").count();
                    if n1 > n0 {
                        w.alarm("C08.effect_as_outside", "removed-source-not-released-when-remove-returned", format!("source #{} was removed from another source's callback and the loop still held it when remove() returned", uid));
                    }
                });
            }
        }
        Op::Disable(sel) => {
            let Some((uid, tok)) = w(|w| resolve(w, *sel, ctx, &|s| s.st == St::Enabled || s.st == St::Removed).and_then(|u| w.srcs[u].token.map(|t| (u, t)))) else { return };
            let (dead, own) = w(|w| (w.srcs[uid].st == St::Removed, w.srcs[uid].in_process));
            let prev = w(|w| {
                w.count("op_disable");
                w.tr(|| format!("disable(#{}){}", uid, if dead { " [dead token]" } else { "" }));
                std::mem::replace(&mut w.reg_ctx, RegCtx::Op(uid))
            });
            let r = h.disable(&tok);
            w(|w| {
                w.reg_ctx = prev;
                let d = w.dispatch_no;
                let in_dispatch = w.in_dispatch;
                if dead {
                    if !matches!(&r, Err(e) if is_invalid_token(e)) {
                        w.alarm("C06.dead_token", "disable-accepted-dead-token", format!("disable() with the dead token of #{} returned {:?}", uid, r.as_ref().map_err(|e| e.to_string())));
                    }
                    return;
                }
                let s = &mut w.srcs[uid];
                match r {
                    Ok(()) => {
                        if own {
                            s.deferred = Some(Ret::Disable);
                            s.self_changed = true;
                        } else {
                            s.st = St::Disabled;
                            s.arm = None;
                        }
                        if in_dispatch {
                            s.touched_at = d;
                        }
                    }
                    Err(e) => {
                        let injected = s.fault_fired;
                        s.st = St::Limbo;
                        w.count("op_failed");
                        if is_invalid_token(&e) {
                            w.alarm("C07.token_stays_valid", "disable-invalid-token", format!("disable(#{}) of an enabled source returned InvalidToken", uid));
                        } else if !injected && !w.had_reg_failure {
                            w.alarm("C15.op_error", "disable-failed-without-fault", format!("disable(#{}) failed: {}", uid, e));
                        }
                    }
                }
            });
        }
        Op::Enable(sel) => {
            let Some((uid, tok)) = w(|w| resolve(w, *sel, ctx, &|s| (s.st == St::Disabled || s.st == St::Removed) && Some(s.uid) != running).and_then(|u| w.srcs[u].token.map(|t| (u, t)))) else { return };
            let dead = w(|w| w.srcs[uid].st == St::Removed);
            let prev = w(|w| {
                w.count("op_enable");
                w.tr(|| format!("enable(#{}){}", uid, if dead { " [dead token]" } else { "" }));
                std::mem::replace(&mut w.reg_ctx, RegCtx::Op(uid))
            });
            let r = h.enable(&tok);
            w(|w| {
                w.reg_ctx = prev;
                let d = w.dispatch_no;
                let in_dispatch = w.in_dispatch;
                if dead {
                    if !matches!(&r, Err(e) if is_invalid_token(e)) {
                        w.alarm("C06.dead_token", "enable-accepted-dead-token", format!("enable() with the dead token of #{} returned {:?}", uid, r.as_ref().map_err(|e| e.to_string())));
                    }
                    return;
                }
                let s = &mut w.srcs[uid];
                match r {
                    Ok(()) => {
                        s.st = St::Enabled;
                        s.disabled_by_post_action = false;
                        s.enabled_since_cb = true;
                        if in_dispatch {
                            s.touched_at = d;
                        }
                    }
                    Err(e) => {
                        let injected = s.fault_fired;
                        s.st = St::Limbo;
                        w.count("op_failed");
                        if is_invalid_token(&e) {
                            w.alarm("C07.token_stays_valid", "enable-invalid-token", format!("enable(#{}) of a disabled source returned InvalidToken", uid));
                        } else if !injected && !w.had_reg_failure {
                            w.alarm("C15.op_error", "enable-failed-without-fault", format!("enable(#{}) failed: {}", uid, e));
                        }
                    }
                }
            });
        }
        Op::Update(sel) => {
            let Some((uid, tok)) = w(|w| {
                let upd = w.allow_update_disabled;
                resolve(w, *sel, ctx, &|s| matches!(s.st, St::Enabled | St::Removed) || (upd && s.st == St::Disabled)).and_then(|u| w.srcs[u].token.map(|t| (u, t)))
            }) else {
                return;
            };
            let (st, own) = w(|w| (w.srcs[uid].st, w.srcs[uid].in_process));
            let prev = w(|w| {
                w.count("op_update");
                w.tr(|| format!("update(#{}) [{:?}]", uid, st));
                std::mem::replace(&mut w.reg_ctx, RegCtx::Op(uid))
            });
            let r = h.update(&tok);
            w(|w| {
                w.reg_ctx = prev;
                let d = w.dispatch_no;
                let in_dispatch = w.in_dispatch;
                if st == St::Removed {
                    if !matches!(&r, Err(e) if is_invalid_token(e)) {
                        w.alarm("C06.dead_token", "update-accepted-dead-token", format!("update() with the dead token of #{} returned {:?}", uid, r.as_ref().map_err(|e| e.to_string())));
                    }
                    return;
                }
                let s = &mut w.srcs[uid];
                if in_dispatch {
                    s.touched_at = d;
                }
                match r {
                    Ok(()) => {
                        if own {
                            s.deferred = Some(Ret::Reregister);
                        }
                        if st == St::Disabled {
                            // update of a disabled source: whatever it answers, the source stays disabled
                            w.count("update_on_disabled");
                        }
                    }
                    Err(e) => {
                        let injected = s.fault_fired;
                        w.count("op_failed");
                        if st == St::Disabled {
                            // fd-backed sources answer ENOENT here; the source simply stays disabled
                            w.count("update_on_disabled");
                            if is_invalid_token(&e) {
                                w.alarm("C07.token_stays_valid", "update-invalid-token", format!("update(#{}) of a disabled source returned InvalidToken", uid));
                            }
                            return;
                        }
                        w.srcs[uid].st = St::Limbo;
                        if is_invalid_token(&e) {
                            w.alarm("C07.token_stays_valid", "update-invalid-token", format!("update(#{}) of an enabled source returned InvalidToken", uid));
                        } else if !injected && !w.had_reg_failure {
                            w.alarm("C15.op_error", "update-failed-without-fault", format!("update(#{}) failed: {}", uid, e));
                        }
                    }
                }
            });
        }
        Op::Ping(sel) => {
            let Some(uid) = w(|w| resolve_any(w, *sel, ctx, &|s| matches!(s.spec.kind, Kind::Ping) && !s.ping_handles.is_empty())) else { return };
            w(|w| w.count("op_ping"));
            make_cause(uid);
        }
        Op::Send(sel) => {
            let Some(uid) = w(|w| resolve_any(w, *sel, ctx, &|s| matches!(s.spec.kind, Kind::Chan { .. }) && !s.senders.is_empty())) else { return };
            send(uid);
        }
        Op::UnwrapChild(sel, k) => {
            if ctx != Ctx::Outside || w(|w| w.in_dispatch) {
                return;
            }
            let Some(uid) = w(|w| resolve(w, *sel, ctx, &|s| matches!(s.spec.kind, Kind::Comp { transient: false, .. }) && s.st == St::Enabled && s.registered && !s.in_process && s.disp.is_some() && s.fds.iter().filter(|c| c.child == ChildSt::Kept).count() >= 2)) else {
                return;
            };
            w(|w| {
                let s = &mut w.srcs[uid];
                let live: Vec<usize> = s.fds.iter().enumerate().filter(|(_, c)| c.child == ChildSt::Kept).map(|(i, _)| i).collect();
                let i = live[*k as usize % live.len()];
                let taken = match s.disp.as_ref() {
                    Some(DispZ::N(d)) => match &mut d.as_source_mut().inner {
                        Inner::Comp(_, cs) => Some(std::mem::replace(&mut cs[i], Child::Taken)),
                        _ => None,
                    },
                    Some(DispZ::L(d)) => match &mut d.as_source_mut().inner {
                        Inner::Comp(_, cs) => Some(std::mem::replace(&mut cs[i], Child::Taken)),
                        _ => None,
                    },
                    None => None,
                };
                if let Some(Child::Plain(g)) = taken {
                    // the user gets the fd back and keeps it open: it must be out of the poller from now on
                    let mut fdx = g.unwrap();
                    if let Some(fd) = fdx.owned.take() {
                        w.kept_fds.push(fd);
                    }
                    let s = &mut w.srcs[uid];
                    s.fds[i].child = ChildSt::Gone;
                    s.sparse_sub_ids = true;
                    s.fds[i].child_pending = ChildSt::Kept;
                    s.fds[i].armed = false;
                    s.fds[i].edge_pending = false;
                    w.count("op_unwrap_child");
                    w.tr(|| format!("composite #{} unwraps its sub-source {}", uid, i));
                }
            });
        }
        Op::EnableAgain(sel) => {
            let Some((uid, tok)) = w(|w| {
                resolve(w, *sel, ctx, &|s| {
                    s.st == St::Enabled
                        && s.registered
                        && !s.in_process
                        && Some(s.uid) != running
                        && s.spec.fault.is_none()
                        && matches!(s.spec.kind, Kind::Ping | Kind::Chan { .. } | Kind::Exec | Kind::Stream | Kind::Gen { .. })
                        && s.fds.iter().all(|c| c.child == ChildSt::Kept)
                })
                .and_then(|u| w.srcs[u].token.map(|t| (u, t)))
            }) else {
                return;
            };
            let before = snapshot(&h);
            let prev = w(|w| {
                w.count("op_enable_again");
                w.tr(|| format!("enable(#{}) although it is enabled", uid));
                std::mem::replace(&mut w.reg_ctx, RegCtx::Op(uid))
            });
            let r = h.enable(&tok);
            let after = snapshot(&h);
            w(|w| {
                w.reg_ctx = prev;
                match r {
                    Err(e) if is_invalid_token(&e) => w.alarm("C07.token_stays_valid", "enable-invalid-token", format!("enable(#{}) of an enabled source returned InvalidToken", uid)),
                    Err(_) => {
                        w.count("enable_again_rejected");
                        super::build::check_as_if_not_made(w, &format!("rejected enable() of the enabled source #{}", uid), &before, &after);
                    }
                    Ok(()) => {
                        w.alarm("C16.exact", "enabled-source-not-registered", format!("enable() of the enabled source #{} was accepted by the poller: its fd was not registered", uid));
                        w.srcs[uid].st = St::Limbo;
                    }
                }
            });
        }
        Op::RegisterAgain(sel) => {
            // only sources with an fd of their own in the poller (the kernel rejects the duplicate), enabled, and
            // not the one whose callback is running (its Dispatcher is borrowed)
            let running = match ctx {
                Ctx::Cb(u) => Some(u),
                _ => None,
            };
            let Some(uid) = w(|w| {
                resolve(w, *sel, ctx, &|s| {
                    s.st == St::Enabled
                        && s.registered
                        && !s.in_process
                        && Some(s.uid) != running
                        && !s.spec.lifecycle
                        && s.disp.is_some()
                        && matches!(s.spec.kind, Kind::Ping | Kind::Chan { .. } | Kind::Exec | Kind::Stream | Kind::Gen { .. })
                        && s.fds.iter().all(|c| c.child == ChildSt::Kept)
                })
            }) else {
                return;
            };
            let before = snapshot(&h);
            let prev = w(|w| {
                w.count("op_register_again");
                w.tr(|| format!("register_dispatcher(#{}'s Dispatcher) again", uid));
                std::mem::replace(&mut w.reg_ctx, RegCtx::Op(uid))
            });
            let r = match w(|w| match w.srcs[uid].disp.as_ref() {
                Some(DispZ::N(d)) => Some(DispZ::N(d.clone())),
                Some(DispZ::L(d)) => Some(DispZ::L(d.clone())),
                None => None,
            }) {
                Some(DispZ::N(d)) => h.register_dispatcher(d),
                Some(DispZ::L(d)) => h.register_dispatcher(d),
                None => return,
            };
            let after = snapshot(&h);
            w(|w| {
                w.reg_ctx = prev;
                match r {
                    Err(_) => {
                        w.count("register_again_rejected");
                        super::build::check_as_if_not_made(w, &format!("rejected second registration of #{}", uid), &before, &after);
                    }
                    Ok(_) => {
                        // the same fd twice in one epoll set cannot be: the first registration was not there
                        w.alarm("C16.exact", "enabled-source-not-registered", format!("a second registration of enabled source #{} was accepted by the poller", uid));
                        w.srcs[uid].st = St::Limbo;
                    }
                }
            });
        }
        Op::Retarget(sel, int, md) => retarget(&h, *sel, *int, *md, ctx),
        Op::Stop => {
            if let Some(sig) = w(|w| {
                w.count("stop");
                w.tr(|| "LoopSignal::stop()".to_string());
                w.signal.clone()
            }) {
                sig.stop();
            }
        }
        Op::Wakeup => {
            if let Some(sig) = w(|w| {
                w.count("wakeup");
                w.tr(|| "LoopSignal::wakeup()".to_string());
                w.signal.clone()
            }) {
                sig.wakeup();
            }
        }
        Op::SendBurst(sel) => {
            // more messages than one dispatch delivers (batch limit 1024)
            let Some(uid) = w(|w| resolve_any(w, *sel, ctx, &|s| matches!(s.spec.kind, Kind::Chan { .. }) && !s.senders.is_empty())) else { return };
            for _ in 0..1100 {
                send(uid);
            }
        }
        Op::DropSender(sel) => {
            let Some(uid) = w(|w| resolve_any(w, *sel, ctx, &|s| !s.senders.is_empty())) else { return };
            let tx = w(|w| {
                w.count("drop_sender");
                w.tr(|| format!("drop a sender of #{}", uid));
                w.srcs[uid].senders.pop()
            });
            drop(tx);
        }
        Op::DropPing(sel) => {
            let Some(uid) = w(|w| resolve_any(w, *sel, ctx, &|s| matches!(s.spec.kind, Kind::Ping) && !s.ping_handles.is_empty())) else { return };
            let p = w(|w| {
                w.count("drop_ping_handle");
                let s = &mut w.srcs[uid];
                let p = s.ping_handles.pop();
                if s.ping_handles.is_empty() {
                    s.ping_closed = true;
                }
                w.tr(|| format!("drop a ping handle of #{}", uid));
                p
            });
            drop(p);
        }
        Op::ClonePing(sel) => {
            let Some(uid) = w(|w| resolve_any(w, *sel, ctx, &|s| matches!(s.spec.kind, Kind::Ping) && !s.ping_handles.is_empty())) else { return };
            w(|w| {
                let c = w.srcs[uid].ping_handles[0].clone();
                w.srcs[uid].ping_handles.push(c);
            });
        }
        Op::WriteFd(sel, c) => {
            if let Some(uid) = w(|w| resolve_any(w, *sel, ctx, &|s| !s.fds.is_empty())) {
                write_fd(uid, *c, ctx);
            }
        }
        Op::DrainFd(sel, c) => {
            if let Some(uid) = w(|w| resolve(w, *sel, ctx, &|s| !s.fds.is_empty())) {
                drain_fd(uid, *c);
            }
        }
        Op::FillFd(sel, c) => {
            if let Some(uid) = w(|w| resolve(w, *sel, ctx, &|s| !s.fds.is_empty())) {
                fill_fd(uid, *c, false);
            }
        }
        Op::UnfillFd(sel, c) => {
            if let Some(uid) = w(|w| resolve(w, *sel, ctx, &|s| !s.fds.is_empty())) {
                fill_fd(uid, *c, true);
            }
        }
        Op::ClosePeer(sel, c) => {
            if let Some(uid) = w(|w| resolve(w, *sel, ctx, &|s| !s.fds.is_empty() && !matches!(s.spec.kind, Kind::Comp { .. }))) {
                let p = w(|w| {
                    let d = w.dispatch_no;
                    let s = &mut w.srcs[uid];
                    let n = s.fds.len();
                    let ch = &mut s.fds[*c as usize % n];
                    if ch.kind == FdKind::Eventfd {
                        return None;
                    }
                    let was = exec::fd_ready_for(ch);
                    let p = ch.peer.take();
                    let _ = d;
                    if !was && p.is_some() {
                        ch.edge_pending = true;
                    }
                    w.count("close_peer");
                    p
                });
                drop(p);
                // the hang-up may or may not count as readiness for the requested interest
                w(|w| {
                    let s = &mut w.srcs[uid];
                    let n = s.fds.len();
                    let ch = &mut s.fds[*c as usize % n];
                    if !exec::fd_ready_for(ch) {
                        ch.edge_pending = false;
                    }
                });
            }
        }
        Op::SetDeadline(sel, dl) => set_deadline(&h, *sel, *dl, ctx),
        Op::Schedule(sel, polls) => {
            let Some(uid) = w(|w| resolve_any(w, *sel, ctx, &|s| s.sched.is_some())) else { return };
            let (sched, id, dropped) = w(|w| {
                let id = w.tasks.len();
                w.tasks.push(TaskRec { id: id as u64, owner: uid, polls_needed: (*polls % 4) + 1, polls: 0, runnable: true, completed: false, delivered: 0, dropped: 0, waker: None, polled_at: 0 });
                w.count("schedule");
                (w.srcs[uid].sched.clone().unwrap(), id, w.srcs[uid].src_drops > 0)
            });
            let r = sched.schedule(Fut { id });
            w(|w| {
                w.tr(|| format!("schedule task {} on executor #{} -> {}", id, uid, r.is_ok()));
                if r.is_err() {
                    w.tasks[id].runnable = false;
                    if !dropped {
                        w.alarm("C10.schedule", "schedule-refused-by-live-executor", format!("schedule() on executor #{} failed although the executor exists", uid));
                    }
                } else if dropped {
                    w.alarm("C10.drop_releases_all", "schedule-accepted-by-destroyed-executor", format!("schedule() on the destroyed executor #{} succeeded", uid));
                }
            });
        }
        Op::WakeTask(sel, i) => {
            let Some(uid) = w(|w| resolve_any(w, *sel, ctx, &|s| s.sched.is_some())) else { return };
            let wk = w(|w| {
                let c: Vec<usize> = w.tasks.iter().enumerate().filter(|(_, t)| t.owner == uid && t.waker.is_some() && !t.completed).map(|(i, _)| i).collect();
                if c.is_empty() {
                    return None;
                }
                let id = c[*i as usize % c.len()];
                w.tasks[id].runnable = true;
                w.count("wake_task");
                w.tasks[id].waker.clone()
            });
            if let Some(wk) = wk {
                wk.wake_by_ref();
            }
        }
        Op::StreamPush(sel) => {
            if let Some(uid) = w(|w| resolve_any(w, *sel, ctx, &|s| s.stream.is_some())) {
                stream_push(uid);
            }
        }
        Op::StreamBurst(sel) => {
            if let Some(uid) = w(|w| resolve_any(w, *sel, ctx, &|s| s.stream.is_some())) {
                w(|w| w.count("stream_burst"));
                for _ in 0..1100 {
                    stream_push(uid);
                }
            }
        }
        Op::StreamPushSelfWake(sel) => {
            let Some(uid) = w(|w| resolve_any(w, *sel, ctx, &|s| s.stream.is_some())) else { return };
            let wk = w(|w| {
                let id = ((uid as u64) << 32) | w.next_msg;
                w.next_msg += 1;
                let st = w.srcs[uid].stream.clone()?;
                let mut s = st.borrow_mut();
                if s.ended {
                    return None;
                }
                s.queue.push_back(id);
                s.hidden.push_back(id);
                s.pushed.push_back(id);
                s.self_wakes_due += 1;
                w.count("stream_push_self_wake");
                s.waker.take()
            });
            if let Some(wk) = wk {
                wk.wake();
            }
        }
        Op::StreamEnd(sel) => {
            let Some(uid) = w(|w| resolve_any(w, *sel, ctx, &|s| s.stream.is_some())) else { return };
            let wk = w(|w| {
                let st = w.srcs[uid].stream.clone().unwrap();
                let mut s = st.borrow_mut();
                s.ended = true;
                w.count("stream_end");
                s.waker.take()
            });
            if let Some(wk) = wk {
                wk.wake();
            }
        }
        Op::ArmSynth(sel) => {
            if let Some(uid) = w(|w| resolve(w, *sel, ctx, &|s| s.spec.lifecycle && matches!(s.st, St::Enabled | St::Disabled))) {
                w(|w| {
                    w.srcs[uid].synth_armed = true;
                    w.count("arm_synthetic");
                });
            }
        }
        Op::InsertIdle(spec) => super::idle::insert_idle(&h, spec, ctx),
        Op::CancelIdle(i) => super::idle::cancel_idle(*i, true),
        Op::DropIdleHandle(i) => super::idle::cancel_idle(*i, false),
        Op::Adapt(k) => super::adapt::adapt(&h, *k, ctx),
        Op::AdapterDrop(i) => super::adapt::release(*i, false),
        Op::AdapterIntoInner(i) => super::adapt::release(*i, true),
        Op::Reinsert(i) => super::adapt::reinsert(*i, ctx),
        Op::ProbeDead => probe_dead(&h, ctx),
        Op::Churn(n) => {
            // the same slot is taken and freed n times; every token issued on the way dies at once
            let spec = SourceSpec { kind: Kind::Ping, lifecycle: false, prog: vec![], fault: None, via_insert: true, bad_fd: None, ready_at_insert: false, owns_adapter: false, bs_fail: None };
            for _ in 0..*n {
                if let Some(uid) = build::insert(&spec, ctx) {
                    let tok = w(|w| {
                        w.count("churn_cycle");
                        w.srcs[uid].ping_handles.clear();
                        w.srcs[uid].token
                    });
                    if let Some(t) = tok {
                        let prev = w(|w| std::mem::replace(&mut w.reg_ctx, RegCtx::Op(uid)));
                        h.remove(t);
                        w(|w| {
                            w.reg_ctx = prev;
                            let d = w.dispatch_no;
                            let s = &mut w.srcs[uid];
                            s.st = St::Removed;
                            s.removed_dispatch = d;
                            s.released = true;
                            // only the last few dead tokens are kept for later probing
                            if uid % 64 != 0 {
                                s.token = None;
                            }
                        });
                    }
                }
            }
        }
    }
}

/// like `resolve`, but a cause may also be produced for a source that is no longer (or not yet) inserted
fn resolve_any(w: &World, sel: Sel, ctx: Ctx, pred: &dyn Fn(&Src) -> bool) -> Option<Uid> {
    if let Some(u) = resolve(w, sel, ctx, pred) {
        return Some(u);
    }
    match sel {
        Sel::Live(i) | Sel::Other(i) | Sel::Dead(i) => {
            let c: Vec<Uid> = w.srcs.iter().filter(|s| pred(s)).map(|s| s.uid).collect();
            if c.is_empty() {
                None
            } else {
                Some(c[i as usize % c.len()])
            }
        }
        Sel::Me => None,
    }
}

fn set_deadline(h: &LoopHandle<'static, ()>, sel: Sel, dl: Dl, ctx: Ctx) {
    let running = match ctx {
        Ctx::Cb(u) => Some(u),
        _ => None,
    };
    let Some(uid) = w(|w| {
        let upd = w.allow_update_disabled;
        resolve(w, sel, ctx, &|s| s.is_timer() && (s.st == St::Enabled || (upd && s.st == St::Disabled)) && s.disp.is_some() && Some(s.uid) != running)
    }) else {
        return;
    };
    let was_disabled = w(|w| w.srcs[uid].st == St::Disabled);
    let mut new = resolve_dl(dl);
    if new.is_none() && w(|w| matches!(w.srcs[uid].spec.kind, Kind::Comp { .. })) {
        // the watchdog of a composite always has a representable deadline
        new = Some(std::time::Instant::now() + Duration::from_secs(3600));
    }
    // set the deadline through the harness' own Dispatcher handle
    let tok = w(|w| {
        let s = &mut w.srcs[uid];
        match s.disp.as_ref() {
            Some(DispZ::N(d)) => {
                if let Some(t) = d.as_source_mut().timer_mut() {
                    match new {
                        Some(i) => t.set_deadline(i),
                        None => t.set_duration(Duration::MAX),
                    }
                }
            }
            Some(DispZ::L(d)) => {
                if let Some(t) = d.as_source_mut().timer_mut() {
                    match new {
                        Some(i) => t.set_deadline(i),
                        None => t.set_duration(Duration::MAX),
                    }
                }
            }
            None => {}
        }
        s.deadline = new.map(|i| (i, i));
        let tok = s.token;
        w.count("set_deadline");
        w.tr(|| format!("set_deadline(#{}, {:?}) + update", uid, dl));
        tok
    });
    let Some(tok) = tok else { return };
    let prev = w(|w| std::mem::replace(&mut w.reg_ctx, RegCtx::Op(uid)));
    let r = h.update(&tok);
    w(|w| {
        w.reg_ctx = prev;
        let d = w.dispatch_no;
        if w.in_dispatch {
            w.srcs[uid].touched_at = d;
        }
        if was_disabled {
            // whatever update() answers for a disabled timer, it stays disabled and must stay silent
            w.count("update_on_disabled");
            return;
        }
        if let Err(e) = r {
            w.srcs[uid].st = St::Limbo;
            if !w.srcs[uid].fault_fired {
                w.alarm("C15.op_error", "update-failed-without-fault", format!("update(#{}) after set_deadline failed: {}", uid, e));
            }
        }
    });
}

/// a Generic gets another interest and/or trigger mode (public fields), followed by update(); only from outside
/// a dispatch: events collected for the old registration would otherwise be judged against the new one
fn retarget(h: &LoopHandle<'static, ()>, sel: Sel, int: Int, md: Md, ctx: Ctx) {
    if ctx != Ctx::Outside {
        return;
    }
    let Some(uid) = w(|w| {
        if w.in_dispatch {
            return None;
        }
        resolve(w, sel, ctx, &|s| matches!(s.spec.kind, Kind::Gen { .. }) && s.st == St::Enabled && s.registered && s.disp.is_some() && s.fds.len() == 1 && !s.in_process)
    }) else {
        return;
    };
    let tok = w(|w| {
        let s = &mut w.srcs[uid];
        match s.disp.as_ref() {
            Some(DispZ::N(d)) => {
                if let Inner::Gen(g) = &mut d.as_source_mut().inner {
                    g.interest = super::build::interest(int);
                    g.mode = super::build::mode(md);
                }
            }
            Some(DispZ::L(d)) => {
                if let Inner::Gen(g) = &mut d.as_source_mut().inner {
                    g.interest = super::build::interest(int);
                    g.mode = super::build::mode(md);
                }
            }
            None => {}
        }
        let old = (s.fds[0].int, s.fds[0].md);
        s.fds[0].int = int;
        s.fds[0].md = md;
        if let Kind::Gen { fd, .. } = s.spec.kind {
            s.spec.kind = Kind::Gen { fd, int, md };
        }
        let tok = s.token;
        w.count("op_retarget");
        if old.0 == int && old.1 != md {
            w.count("retarget_mode_only");
        }
        w.tr(|| format!("retarget(#{}, {:?}/{:?} -> {:?}/{:?}) + update", uid, old.0, old.1, int, md));
        tok
    });
    let Some(tok) = tok else { return };
    let prev = w(|w| std::mem::replace(&mut w.reg_ctx, RegCtx::Op(uid)));
    let r = h.update(&tok);
    w(|w| {
        w.reg_ctx = prev;
        if let Err(e) = r {
            w.srcs[uid].st = St::Limbo;
            if !w.srcs[uid].fault_fired {
                w.alarm("C15.op_error", "update-failed-without-fault", format!("update(#{}) after a change of interest/mode failed: {}", uid, e));
            }
        }
    });
}

fn probe_dead(h: &LoopHandle<'static, ()>, ctx: Ctx) {
    let dead: Vec<(Uid, calloop::RegistrationToken)> = w(|w| w.srcs.iter().filter(|s| s.st == St::Removed).filter_map(|s| s.token.map(|t| (s.uid, t))).collect());
    if dead.is_empty() {
        return;
    }
    let outside = ctx == Ctx::Outside;
    let before = if outside { Some(snapshot(h)) } else { None };
    for (uid, tok) in &dead {
        let prev = w(|w| std::mem::replace(&mut w.reg_ctx, RegCtx::None));
        let r1 = h.enable(tok);
        let r2 = h.disable(tok);
        let r3 = h.update(tok);
        h.remove(*tok);
        w(|w| {
            w.reg_ctx = prev;
            w.count("dead_token_probe");
            for (name, r) in [("enable", &r1), ("disable", &r2), ("update", &r3)] {
                if !matches!(r, Err(e) if is_invalid_token(e)) {
                    w.alarm("C06.dead_token", &format!("{}-accepted-dead-token", name), format!("{}() with the dead token of #{} returned {:?}", name, uid, r.as_ref().map_err(|e| e.to_string())));
                }
            }
        });
    }
    if let Some(b) = before {
        let a = snapshot(h);
        if a != b {
            w(|w| w.alarm("C06.dead_token", "dead-token-had-an-effect", format!("using the dead tokens changed the loop: {:?} -> {:?}", b, a)));
        }
    }
}
