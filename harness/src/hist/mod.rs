//! Single-threaded history engine (C01 C02 C05 C06 C07 C08 C09 C13 C14 C15 C16, and the
//! single-threaded parts of C03 C04 C10).

pub mod adapt;
pub mod build;
pub mod exec;
pub mod gen;
pub mod idle;
pub mod ops;
pub mod run;
pub mod spec;
pub mod world;
pub mod zoo;

use run::{run_history, Outcome, RunCfg};
use spec::*;

pub fn own<'a>(o: &'a Outcome, prop: &str) -> Option<&'a world::Alarm> {
    o.alarms.iter().find(|a| a.clause.starts_with(prop) && a.clause.as_bytes().get(prop.len()) == Some(&b'.'))
}

fn fires(h: &History, cfg: &RunCfg, clause: &str) -> bool {
    let o = run_history(h, cfg);
    o.harness_fault.is_none() && o.alarms.iter().any(|a| a.clause == clause)
}

fn simplify_op(op: &mut Op, which: &mut usize, target: usize) -> bool {
    // clear the target-th callback-program entry (in pre-order) of the sources nested in `op`
    match op {
        Op::Insert(s) => {
            for c in s.prog.iter_mut() {
                if *which == target {
                    if c.ops.is_empty() && c.ret == Ret::Continue && c.child_ret == Ret::Continue {
                        *which += 1;
                        return false;
                    }
                    c.ops.clear();
                    c.ret = Ret::Continue;
                    c.child_ret = Ret::Continue;
                    *which += 1;
                    return true;
                }
                *which += 1;
                for o in c.ops.iter_mut() {
                    if simplify_op(o, which, target) {
                        return true;
                    }
                }
            }
            false
        }
        Op::InsertIdle(i) => {
            for o in i.ops.iter_mut() {
                if simplify_op(o, which, target) {
                    return true;
                }
            }
            false
        }
        _ => false,
    }
}

/// delta debugging on the step list, then on callback-program entries, while the same clause keeps firing
pub fn shrink(h: &History, cfg: &RunCfg, clause: &str, budget: usize) -> History {
    let mut cur = h.clone();
    let mut runs = 0;
    let mut chunk = (cur.steps.len() / 2).max(1);
    while chunk >= 1 && runs < budget {
        let mut i = 0;
        let mut progressed = false;
        while i < cur.steps.len() && runs < budget {
            let mut cand = cur.clone();
            let end = (i + chunk).min(cand.steps.len());
            cand.steps.drain(i..end);
            runs += 1;
            if !cand.steps.is_empty() && fires(&cand, cfg, clause) {
                cur = cand;
                progressed = true;
            } else {
                i += chunk;
            }
        }
        if chunk == 1 && !progressed {
            break;
        }
        if !progressed || chunk > 1 {
            chunk = if chunk == 1 { 1 } else { chunk / 2 };
        }
    }
    // callback programs
    let mut target = 0;
    while runs < budget && target < 400 {
        let mut cand = cur.clone();
        let mut which = 0;
        let mut changed = false;
        let mut exhausted = true;
        for st in cand.steps.iter_mut() {
            if let Step::Op(op) = st {
                let before = which;
                if simplify_op(op, &mut which, target) {
                    changed = true;
                    exhausted = false;
                    break;
                }
                if which > target && which != before {
                    exhausted = false;
                    break;
                }
            }
        }
        if exhausted && !changed {
            break;
        }
        if changed {
            runs += 1;
            if fires(&cand, cfg, clause) {
                cur = cand;
            }
        }
        target += 1;
    }
    cur
}
