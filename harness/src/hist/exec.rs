//! Online monitors fed by the instrumented sources: process_events windows, registration
//! accounting, lifecycle calls, timer armings, and the callback itself.

use super::ops;
use super::spec::*;
use super::world::*;
use super::zoo::{CbRet, Ev};
use crate::sysx;
use std::time::{Duration, Instant};

pub fn kind_bit(k: &Kind) -> u64 {
    1u64 << k.code()
}

fn st_name(st: St) -> &'static str {
    match st {
        St::Fresh => "not-inserted",
        St::Enabled => "enabled",
        St::Disabled => "disabled",
        St::Removed => "removed",
        St::Rejected => "rejected",
        St::Limbo => "limbo",
    }
}

// ------------------------------------------------------------------ post-action window

/// close the post-action window that may be open: the registration calls the loop made on
/// the source after its process_events must be exactly the ones its effective action asks for
pub fn close_window(w: &mut World) {
    if let RegCtx::Post(uid) = w.reg_ctx.clone() {
        w.reg_ctx = RegCtx::None;
        let s = &mut w.srcs[uid];
        let calls: Vec<(RegCall, bool)> = std::mem::take(&mut s.reg_window);
        let eff = s.effective;
        let self_removed = s.st == St::Removed;
        let n_rereg = calls.iter().filter(|c| c.0 == RegCall::Reregister).count();
        let n_unreg = calls.iter().filter(|c| c.0 == RegCall::Unregister).count();
        let n_reg = calls.iter().filter(|c| c.0 == RegCall::Register).count();
        let any_failed = calls.iter().any(|c| !c.1);
        let mut bad: Option<(&str, String)> = None;
        let mut undisturbed = false;
        match eff {
            Ret::Reregister => {
                if self_removed {
                    // it also removed itself: removal is judged by state only
                } else if n_rereg != 1 || n_unreg != 0 || n_reg != 0 {
                    bad = Some(("reregister-not-applied-once", format!("effective action Reregister, calls {:?}", calls)));
                }
            }
            Ret::Disable => {
                if self_removed {
                } else if n_unreg != 1 || n_rereg != 0 || n_reg != 0 {
                    bad = Some(("disable-not-applied-once", format!("effective action Disable, calls {:?}", calls)));
                }
            }
            Ret::Remove => {
                if n_rereg != 0 || n_reg != 0 || n_unreg > 2 {
                    bad = Some(("remove-with-other-calls", format!("effective action Remove, calls {:?}", calls)));
                }
            }
            Ret::Continue | Ret::Err => {
                let allowed_unreg = if self_removed { 2 } else { 0 };
                if n_rereg != 0 || n_reg != 0 || n_unreg > allowed_unreg {
                    bad = Some(("action-without-request", format!("effective action Continue, calls {:?}", calls)));
                    if n_unreg > allowed_unreg {
                        undisturbed = true;
                    }
                }
            }
        }
        // a source that left the loop from its own callback (or by Remove) must have been unregistered by now
        let still_registered = self_removed && s.registered && !s.fault_fired;
        if still_registered && bad.is_none() {
            bad = Some(("removed-source-left-registered", format!("the source is removed but its last registration call left it registered, calls {:?}", calls)));
        }
        let errd = s.pe_err;
        if let Some((c, d)) = bad {
            let culprit = if errd { format!("{}-after-error", c) } else { c.to_string() };
            w.alarm("C09.applied_once", &culprit, format!("source #{}: {}", uid, d));
        }
        if undisturbed {
            w.alarm("C07.others_undisturbed", "enabled-source-unregistered-without-request", format!("source #{} was unregistered after its event processing although it asked for nothing: somebody else's disable reached it", uid));
        }
        if any_failed {
            w.had_reg_failure = true;
        }
    }
}

pub fn pe_begin(uid: Uid, key: usize, r: bool, wr: bool) {
    w(|w| {
        close_window(w);
        let seq = w.tick();
        if w.first_pe_seq == 0 {
            w.first_pe_seq = seq;
        }
        w.running = Some(uid);
        let in_dispatch = w.in_dispatch;
        let s = &mut w.srcs[uid];
        s.in_process = true;
        s.self_changed = false;
        s.deferred = None;
        s.pe_err = false;
        if s.spec.lifecycle {
            s.life.pes.push((key, r, wr));
        }
        w.tr(|| format!("  process_events #{} key={:#x} r={} w={}", uid, key, r, wr));
        if !in_dispatch {
            w.alarm("C01.outside_dispatch", "process-events-outside-dispatch", format!("source #{} processed outside a dispatch", uid));
        }
    })
}

pub fn pe_end(uid: Uid, action: Option<Ret>, err: bool) {
    w(|w| {
        w.running = None;
        let d = w.dispatch_no;
        let s = &mut w.srcs[uid];
        s.in_process = false;
        s.pe_err = err;
        let explicit = action.unwrap_or(Ret::Continue);
        s.explicit = explicit;
        let eff = if explicit != Ret::Continue { explicit } else { s.deferred.take().unwrap_or(Ret::Continue) };
        s.deferred = None;
        s.effective = eff;
        s.reg_window.clear();
        let was = s.st;
        if was == St::Enabled || was == St::Limbo || (was == St::Disabled && eff == Ret::Remove) {
            match eff {
                Ret::Disable => {
                    s.st = St::Disabled;
                    s.disabled_by_post_action = true;
                    s.arm = None;
                    s.touched_at = d;
                }
                Ret::Remove => {
                    s.st = St::Removed;
                    s.arm = None;
                    s.release_due = true;
                    s.removed_dispatch = d;
                    s.touched_at = d;
                }
                Ret::Reregister => {
                    s.touched_at = d;
                }
                _ => {}
            }
        }
        if err {
            w.dispatch_failed = true;
            w.count("pe_err");
        }
        w.reg_ctx = RegCtx::Post(uid);
        w.tr(|| format!("  process_events #{} -> {:?} (err={}) effective {:?}", uid, action, err, eff));
    })
}

// ------------------------------------------------------------------ registration calls

pub fn fd_ready_for(c: &FdChild) -> bool {
    let rd = matches!(c.int, Int::Read | Int::Both) && sysx::readable_now(c.src_raw);
    let wr = matches!(c.int, Int::Write | Int::Both) && sysx::writable_now(c.src_raw);
    rd || wr
}

pub fn reg_event(uid: Uid, call: RegCall, ok: bool, injected: bool) {
    w(|w| {
        w.count(match call {
            RegCall::Register => "reg_register",
            RegCall::Reregister => "reg_reregister",
            RegCall::Unregister => "reg_unregister",
        });
        let ctx = w.reg_ctx.clone();
        let allowed = match &ctx {
            RegCtx::Op(u) | RegCtx::Post(u) => *u == uid,
            RegCtx::Free => true,
            RegCtx::None => false,
        };
        if !allowed {
            let culprit = match (&ctx, call) {
                (RegCtx::Post(_), RegCall::Unregister) => "unregister-on-source-that-asked-nothing",
                (RegCtx::Post(_), RegCall::Reregister) => "reregister-on-source-that-asked-nothing",
                (RegCtx::Post(_), RegCall::Register) => "register-on-source-that-asked-nothing",
                (_, RegCall::Unregister) => "unregister-out-of-context",
                (_, RegCall::Reregister) => "reregister-out-of-context",
                (_, RegCall::Register) => "register-out-of-context",
            };
            w.alarm("C09.foreign_action", culprit, format!("{:?} called on source #{} while the registration context is {:?}", call, uid, ctx));
            if call == RegCall::Unregister && w.srcs[uid].st == St::Enabled {
                // somebody else's disable reached this source
                w.alarm("C07.others_undisturbed", "enabled-source-unregistered-without-request", format!("source #{} was unregistered although nobody disabled or removed it (context {:?})", uid, ctx));
            }
        }
        if !ok {
            w.had_reg_failure = true;
            w.judge_c16 = false;
            // a post action whose registration call failed leaves the source in an unknown state
            if ctx == RegCtx::Post(uid) && matches!(w.srcs[uid].st, St::Disabled | St::Enabled) {
                w.srcs[uid].st = St::Limbo;
            }
        }
        let _ = injected;
        let d = w.dispatch_no;
        let in_dispatch = w.in_dispatch;
        let s = &mut w.srcs[uid];
        s.reg_calls[call as usize] += 1;
        if ctx == RegCtx::Post(uid) {
            // only calls the loop makes on its own after the source's event processing belong to the window
            s.reg_window.push((call, ok));
        }
        if ok && matches!(call, RegCall::Register | RegCall::Reregister) {
            s.sparse_sub_ids = false;
        }
        if call == RegCall::Unregister && s.synth_owed {
            // nothing can be demanded for an unregistered source; the loop may still hold the event
            s.synth_owed = false;
            s.synth_maybe = true;
        }
        match call {
            RegCall::Register | RegCall::Reregister if ok => s.registered = true,
            RegCall::Unregister => s.registered = false,
            _ => {}
        }
        if ok {
            match call {
                RegCall::Register | RegCall::Reregister => {
                    if s.is_timer() {
                        s.arm_count += 1;
                        s.arm = s.deadline.map(|(lo, hi)| Arming { n: s.arm_count, lo, hi, fired: false });
                    }
                    let is_reg = call == RegCall::Register;
                    for c in s.fds.iter_mut() {
                        if is_reg && c.child == ChildSt::Disabled {
                            // (a disabled sub-source comes back at a fresh registration: the ones after it move up)
                            c.child = ChildSt::Kept;
                            s.layout_changed_at = d;
                        }
                        if c.child_pending != ChildSt::Kept {
                            c.child = c.child_pending;
                            c.child_pending = ChildSt::Kept;
                            s.layout_changed_at = d;
                        }
                        if c.child != ChildSt::Kept {
                            continue;
                        }
                        c.armed = true;
                        c.edge_pending = fd_ready_for(c);
                        if in_dispatch {
                            c.rereg_at = d;
                        }
                    }
                }
                RegCall::Unregister => {
                    s.arm = None;
                    for c in s.fds.iter_mut() {
                        c.armed = false;
                        c.edge_pending = false;
                        if c.child_pending == ChildSt::Gone {
                            c.child = ChildSt::Gone;
                            // the next registration numbers the remaining sub-sources anew
                            s.layout_changed_at = d;
                        }
                        c.child_pending = ChildSt::Kept;
                    }
                }
            }
        }
        w.tr(|| format!("    {:?}(#{}) -> {}", call, uid, if ok { "ok" } else { "ERR" }));
    })
}

// ------------------------------------------------------------------ lifecycle

pub fn before_sleep(uid: Uid) -> bool {
    w(|w| {
        let seq = w.tick();
        w.count("before_sleep");
        let waited = w.wait_pre_seq != 0;
        let in_dispatch = w.in_dispatch;
        let s = &mut w.srcs[uid];
        s.life.bs += 1;
        s.life.bs_seq = seq;
        let st = s.st;
        let want = s.synth_armed;
        s.synth_armed = false;
        if st != St::Enabled && st != St::Limbo {
            w.alarm("C14.not_for_inactive", &format!("before_sleep-on-{}-source", st_name(st)), format!("before_sleep called on source #{} which is {}", uid, st_name(st)));
            if st == St::Disabled && w.srcs[uid].disabled_by_post_action {
                // PostAction::Disable has the effect of LoopHandle::disable(), which ends the lifecycle hooks too
                w.alarm("C09.applied_once", "disable-post-action-left-lifecycle-hooks-running", format!("source #{} returned PostAction::Disable but still gets before_sleep", uid));
            }
        }
        if waited || !in_dispatch {
            w.alarm("C14.order", "before_sleep-after-wait", format!("before_sleep of #{} called after the wait began", uid));
        }
        w.tr(|| format!("  before_sleep #{} (synthetic: {})", uid, want));
        want
    })
}

/// does this call of before_sleep fail by injection? (a synthetic event that was about to be announced stays armed)
pub fn before_sleep_fails(uid: Uid, want: bool) -> bool {
    w(|w| {
        let s = &mut w.srcs[uid];
        let n = s.bs_calls;
        s.bs_calls += 1;
        if s.spec.bs_fail.map(|k| k as u32 == n).unwrap_or(false) {
            if want {
                s.synth_armed = true;
            }
            w.dispatch_failed = true;
            w.count("before_sleep_failed");
            w.tr(|| format!("  before_sleep #{} fails (injected)", uid));
            true
        } else {
            false
        }
    })
}

pub fn synth_returned(uid: Uid, key: usize) {
    w(|w| {
        w.count("synthetic_returned");
        w.srcs[uid].life.synth_returned = true;
        w.srcs[uid].life.synth_key = key;
    })
}

pub fn synth_delivered(uid: Uid) {
    w(|w| {
        let s = &mut w.srcs[uid];
        // the wrapper recognised its synthetic token: not a polled event
        s.life.pes.pop();
        if s.synth_owed {
            // announced in an earlier dispatch that failed before the wait: delivered now
            s.synth_owed = false;
            w.count("synthetic_delivered_after_failed_dispatch");
            return;
        }
        if !s.life.synth_returned && s.synth_maybe {
            // a leftover of a failed dispatch reached the wrapper after it had been unregistered and registered again
            s.synth_maybe = false;
            w.count("synthetic_leftover_delivered_after_reregistration");
            return;
        }
        s.life.synth_delivered += 1;
        let ok = s.life.synth_returned;
        let layout = s.layout_changed_at != 0 && s.layout_changed_at == w.dispatch_no;
        if !ok {
            w.alarm("C14.synthetic", "synthetic-without-request", format!("source #{} got its synthetic token although before_sleep returned none in this dispatch", uid));
            let cu = if layout { "composite-subtoken-layout-changed-in-dispatch" } else { "event-under-synthetic-token" };
            w.alarm("C01.misrouted", cu, format!("source #{}: an event arrived under the token of its synthetic events although none was requested: it belongs to another sub-source", uid));
        }
    })
}

pub fn before_handle_events(uid: Uid, items: Vec<(usize, bool, bool)>) {
    w(|w| {
        let seq = w.tick();
        w.count("before_handle_events");
        let waited = w.wait_post_seq != 0;
        let any_pe = w.first_pe_seq != 0;
        let s = &mut w.srcs[uid];
        s.life.bhe += 1;
        s.life.bhe_seq = seq;
        let st = s.st;
        let mykey = s.token.map(|t| t.verif_key());
        let mut foreign = None;
        for (k, _, _) in &items {
            if let Some(mk) = mykey {
                if !calloop::verif::same_source(*k, mk) {
                    foreign = Some(*k);
                }
            }
        }
        s.life.items = items;
        if st != St::Enabled && st != St::Limbo {
            w.alarm("C14.not_for_inactive", &format!("before_handle_events-on-{}-source", st_name(st)), format!("before_handle_events called on source #{} which is {}", uid, st_name(st)));
        }
        if !waited || any_pe {
            w.alarm("C14.order", "before_handle_events-misplaced", format!("before_handle_events of #{}: wait finished={}, some source already processed={}", uid, waited, any_pe));
        }
        if let Some(k) = foreign {
            w.alarm("C14.iterator_exact", "foreign-event-in-iterator", format!("iterator of #{} yielded key {:#x} of another source", uid, k));
        }
        w.tr(|| format!("  before_handle_events #{}", uid));
    })
}

// ------------------------------------------------------------------ timers

pub fn timer_rearmed(uid: Uid, range: Option<(Instant, Instant)>) {
    w(|w| {
        let s = &mut w.srcs[uid];
        s.deadline = range;
        s.arm_count += 1;
        s.arm = range.map(|(lo, hi)| Arming { n: s.arm_count, lo, hi, fired: false });
        s.pending_hi = None;
    })
}

pub fn timer_pending_hi(uid: Uid, d: Duration) {
    w(|w| w.srcs[uid].pending_hi = Some(d))
}

pub fn timer_close_hi(uid: Uid) {
    w(|w| {
        let s = &mut w.srcs[uid];
        if let Some(d) = s.pending_hi.take() {
            let hi = Instant::now() + d;
            if let Some(a) = s.arm.as_mut() {
                a.hi = hi;
            }
            if let Some(dl) = s.deadline.as_mut() {
                dl.1 = hi;
            }
        }
    })
}

// ------------------------------------------------------------------ the callback

fn check_cause(w: &mut World, uid: Uid, ev: &Ev) {
    let d = w.dispatch_no;
    match ev {
        Ev::Ping => {
            if !matches!(w.srcs[uid].spec.kind, Kind::Ping) {
                let name = w.srcs[uid].spec.kind.name();
                w.alarm("C01.no_cause", "wrong-event-kind", format!("source #{} ({}) got a ping event", uid, name));
                return;
            }
            if w.srcs[uid].pings == 0 {
                w.alarm("C01.no_cause", "ping-callback-without-ping", format!("ping source #{} invoked with no ping since its last callback", uid));
                w.alarm("C03.no_spurious", "callback-without-ping", format!("ping source #{} invoked with no ping since its last callback", uid));
            }
            let s = &mut w.srcs[uid];
            let coalesced = s.pings;
            s.pings = 0;
            if coalesced > 1 {
                w.count("pings_coalesced");
            }
            // (a synthetic event of a lifecycle wrapper is a callback of its own, not a ping callback)
            w.srcs[uid].ping_cbs_in_dispatch += 1;
            if w.srcs[uid].ping_cbs_in_dispatch > 1 {
                w.alarm("C03.coalesce", "two-callbacks-in-one-dispatch", format!("ping source #{} invoked twice in dispatch {}", uid, d));
            }
        }
        Ev::Msg(m) => {
            let s = &mut w.srcs[uid];
            match s.queue.front().copied() {
                Some(h) if h == *m => {
                    s.queue.pop_front();
                    s.delivered += 1;
                }
                Some(h) => {
                    let known = s.queue.contains(m);
                    let c = if known { "out-of-order" } else { "foreign-or-duplicate-message" };
                    w.alarm("C01.no_cause", c, format!("channel #{} delivered {:#x}, head of its queue is {:#x}", uid, m, h));
                    w.alarm("C04.exactly_once_in_order", c, format!("channel #{} delivered {:#x}, head of its queue is {:#x}", uid, m, h));
                }
                None => {
                    w.alarm("C01.no_cause", "foreign-or-duplicate-message", format!("channel #{} delivered {:#x} with an empty queue", uid, m));
                    w.alarm("C04.exactly_once_in_order", "foreign-or-duplicate-message", format!("channel #{} delivered {:#x} with an empty queue", uid, m));
                }
            }
            if s_closed(w, uid) {
                w.alarm("C04.closed_last", "message-after-closed", format!("channel #{} delivered a message after Closed", uid));
            }
        }
        Ev::Closed => {
            let s = &mut w.srcs[uid];
            let bad = !s.senders.is_empty() || !s.queue.is_empty() || s.closed_reported > 0;
            s.closed_reported += 1;
            if bad {
                let c = if s.closed_reported > 1 { "closed-twice" } else if !s.senders.is_empty() { "closed-with-live-sender" } else { "closed-before-messages" };
                let (ns, nq) = (s.senders.len(), s.queue.len());
                w.alarm("C01.no_cause", c, format!("channel #{} reported Closed with {} senders alive, {} messages queued", uid, ns, nq));
                w.alarm("C04.closed_once", c, format!("channel #{} reported Closed with {} senders alive, {} messages queued", uid, ns, nq));
            }
        }
        Ev::Timeout(ev_dl) => {
            let now = Instant::now();
            if matches!(w.srcs[uid].spec.kind, Kind::Comp { .. }) {
                w.count("composite_watchdog_fired");
            }
            w.timer_cb_deadlines.push((uid, *ev_dl));
            let s = &mut w.srcs[uid];
            match s.arm.as_mut() {
                None => {
                    w.alarm("C05.cancel_final", "fired-without-arming", format!("timer #{} fired although it has no current arming (cancelled or never armed)", uid));
                    w.alarm("C01.no_cause", "timer-without-arming", format!("timer #{} fired although it has no current arming", uid));
                }
                Some(a) => {
                    let n = a.n;
                    let (lo, hi) = (a.lo, a.hi);
                    let fired = a.fired;
                    a.fired = true;
                    if fired {
                        w.alarm("C05.once", "arming-fired-twice", format!("arming {} of timer #{} fired a second time", n, uid));
                    }
                    if *ev_dl < lo || *ev_dl > hi {
                        w.alarm("C05.event_is_deadline", "event-differs-from-deadline", format!("timer #{} arming {}: event differs from its deadline by {:?}", uid, n, if *ev_dl < lo { lo - *ev_dl } else { *ev_dl - hi }));
                    }
                    if now < *ev_dl {
                        let early = *ev_dl - now;
                        let touched = w.touched_now(uid);
                        let c = if touched { "early-after-rearm-in-same-dispatch" } else { "early" };
                        w.alarm("C05.never_early", c, format!("timer #{} arming {} invoked {:?} before its deadline", uid, n, early));
                    }
                }
            }
        }
        Ev::Fd { child, readable, writable } => {
            let s = &mut w.srcs[uid];
            let layout_changed = s.layout_changed_at == d;
            let Some(c) = s.fds.get_mut(*child) else {
                w.alarm("C01.no_cause", "unknown-sub-source", format!("source #{} invoked for sub-source {} it does not have", uid, child));
                return;
            };
            c.cbs += 1;
            let raw = c.src_raw;
            let skip = c.modified_at == d; // the harness changed this fd's readiness during this dispatch
            let gone = c.child != ChildSt::Kept;
            let p = sysx::poll_fd(raw);
            let r_ok = !*readable || p & (sysx::POLLIN | sysx::POLLHUP | sysx::POLLERR | sysx::POLLPRI) != 0;
            let w_ok = !*writable || p & (sysx::POLLOUT | sysx::POLLHUP | sysx::POLLERR) != 0;
            let oneshot_unarmed = c.md == Md::OneShot && !c.armed;
            if c.rereg_at != d {
                // (an event delivered after a re-registration made in this same dispatch was collected
                // before it: it belongs to the previous arming and does not consume the new one)
                c.armed = false;
                c.edge_pending = false;
            }
            if gone {
                let cu = if layout_changed { "composite-subtoken-layout-changed-in-dispatch" } else { "sub-source-not-registered" };
                w.alarm("C01.misrouted", cu, format!("source #{}: callback for sub-source {} which is not registered", uid, child));
            } else if (!r_ok || !w_ok) && !skip {
                let cu = if layout_changed { "composite-subtoken-layout-changed-in-dispatch" } else { "fd-not-ready" };
                w.alarm("C01.misrouted", cu, format!("source #{} sub-source {} invoked with readable={} writable={} but poll(2) on its fd {} says {:#x}", uid, child, readable, writable, raw, p));
            }
            if oneshot_unarmed && !skip {
                w.alarm("C02.oneshot_once", "second-event-without-rearm", format!("one-shot source #{} sub-source {} invoked again without being re-armed", uid, child));
            }
        }
        Ev::Done(id) => {
            let ok = w.tasks.iter().any(|t| t.id == *id && t.owner == uid && t.completed && t.delivered == 0);
            if let Some(t) = w.tasks.iter_mut().find(|t| t.id == *id) {
                t.delivered += 1;
            }
            if !ok {
                w.alarm("C01.no_cause", "result-without-completed-task", format!("executor #{} delivered result {} which is not an undelivered completed task of its own", uid, id));
                w.alarm("C10.result_once", "result-without-completed-task", format!("executor #{} delivered result {} which is not an undelivered completed task of its own", uid, id));
            }
        }
        Ev::Item(it) => {
            let s = &mut w.srcs[uid];
            let Some(st) = s.stream.clone() else {
                w.alarm("C01.no_cause", "wrong-event-kind", format!("source #{} got a stream item", uid));
                return;
            };
            let mut stt = st.borrow_mut();
            match it {
                Some(x) => {
                    let head = stt.pushed.pop_front();
                    drop(stt);
                    if head != Some(*x) {
                        w.alarm("C01.no_cause", "stream-item-out-of-order", format!("stream #{} delivered {:#x}, expected {:?}", uid, x, head));
                        w.alarm("C10.stream_in_order", "stream-item-out-of-order", format!("stream #{} delivered {:#x}, expected {:?}", uid, x, head));
                    }
                }
                None => {
                    let bad = !stt.ended || !stt.pushed.is_empty();
                    drop(stt);
                    s.stream_none += 1;
                    let twice = s.stream_none > 1;
                    if bad || twice {
                        w.alarm("C10.stream_end_once", if twice { "none-twice" } else { "none-before-end" }, format!("stream #{} delivered None (ended or drained: {})", uid, !bad));
                    }
                }
            }
        }
        Ev::Synth => {}
    }
}

fn s_closed(w: &World, uid: Uid) -> bool {
    w.srcs[uid].closed_reported > 0
}

/// the user callback of every source of the zoo
pub fn on_callback(uid: Uid, ev: Ev) -> CbRet {
    let step = w(|w| {
        w.tick();
        w.count("cb");
        w.cbs_this_dispatch += 1;
        let d = w.dispatch_no;
        let idle_phase = w.idle_phase;
        let in_dispatch = w.in_dispatch;
        let s = &mut w.srcs[uid];
        s.cbs_in_dispatch += 1;
        s.cause_from_cb = false;
        s.last_cb_dispatch = d;
        s.enabled_since_cb = false;
        let k = s.cb_count;
        s.cb_count += 1;
        let st = s.st;
        let lat = s.in_process && s.self_changed;
        let kb = kind_bit(&s.spec.kind);
        w.cov_kinds |= kb;
        w.tr(|| format!("  CALLBACK #{} [{}] {}", uid, k, ev.short()));
        if idle_phase {
            w.alarm("C13.after_sources", "source-callback-after-idle", format!("callback of source #{} ran after an idle callback of the same dispatch", uid));
        }
        if !in_dispatch {
            w.alarm("C01.outside_dispatch", "callback-outside-dispatch", format!("callback of #{} ran outside a dispatch", uid));
        }
        // a user-written source that does not filter events itself is handed the events that were collected before
        // another callback of this dispatch disabled it: calloop leaves that filtering to the source (every built-in
        // source does it), so it is not held against the loop
        let raw_stale = matches!(w.srcs[uid].spec.kind, Kind::Raw) && st == St::Disabled && w.touched_now(uid);
        let allowed = st == St::Enabled || st == St::Limbo || lat || raw_stale;
        if !allowed {
            let detail = format!("callback of source #{} ({}) invoked for {} while the source is {}", uid, w.srcs[uid].spec.kind.name(), ev.short(), st_name(st));
            let stale = w.srcs[uid].removed_dispatch == d || w.touched_now(uid);
            let when = if stale { "event-collected-before-the-change" } else { "later-dispatch" };
            w.alarm("C01.not_live", &format!("callback-on-{}-source-{}", st_name(st), when), detail.clone());
            match st {
                St::Removed => w.alarm("C06.silent_after_remove", &format!("callback-after-remove-{}", when), detail),
                St::Disabled => {
                    if w.srcs[uid].disabled_by_post_action {
                        w.alarm("C09.applied_once", "disable-post-action-did-not-silence-the-source", detail.clone());
                    }
                    w.alarm("C07.silent_while_disabled", &format!("callback-while-disabled-{}", when), detail)
                }
                St::Rejected | St::Fresh => w.alarm("C15.as_if_not_made", "callback-for-rejected-source", detail),
                _ => {}
            }
        }
        check_cause(w, uid, &ev);
        let mut step = w.srcs[uid].spec.prog.get(k).cloned().unwrap_or_default();
        if matches!(w.srcs[uid].spec.kind, Kind::Timer { .. }) && step.tact == TAct::Drop {
            step.ret = Ret::Continue;
        }
        if matches!(ev, Ev::Closed | Ev::Item(None)) {
            step.ret = Ret::Continue;
        }
        w.cov_rets |= 1 << (step.ret as u64);
        if step.child_ret != Ret::Continue {
            w.cov_rets |= 1 << (8 + step.child_ret as u64);
        }
        step
    });
    for op in &step.ops {
        ops::exec_op(op, ops::Ctx::Cb(uid));
    }
    // child-level action of a transient composite child: the ledger follows what was asked
    if let Ev::Fd { child, .. } = ev {
        w(|w| {
            let s = &mut w.srcs[uid];
            if let Kind::Comp { transient: true, .. } = s.spec.kind {
                if let Some(c) = s.fds.get_mut(child) {
                    if c.child == ChildSt::Kept {
                        match step.child_ret {
                            Ret::Remove => c.child_pending = ChildSt::Gone,
                            Ret::Disable => c.child_pending = ChildSt::Disabled,
                            _ => {}
                        }
                    }
                }
            }
        });
    }
    w(|w| w.tr(|| format!("  callback #{} returns {:?}", uid, step.ret)));
    CbRet { post: step.ret, child: step.child_ret, tact: step.tact }
}
