//! History specification: everything a history consists of is plain data (serde), so that a
//! witness can be written to a replay file, shrunk by deleting parts, and re-executed.

use serde::{Deserialize, Serialize};

#[derive(Clone, Copy, Debug, PartialEq, Eq, Serialize, Deserialize, Hash)]
pub enum Int {
    Read,
    Write,
    Both,
    Empty,
}

#[derive(Clone, Copy, Debug, PartialEq, Eq, Serialize, Deserialize, Hash)]
pub enum Md {
    Level,
    Edge,
    OneShot,
}

#[derive(Clone, Copy, Debug, PartialEq, Eq, Serialize, Deserialize, Hash)]
pub enum FdKind {
    /// source holds the read end of a pipe (write end if the interest is Write)
    Pipe,
    Eventfd,
    Socket,
}

/// a deadline relative to the moment the value is used
#[derive(Clone, Copy, Debug, PartialEq, Eq, Serialize, Deserialize, Hash)]
pub enum Dl {
    Past,
    Now,
    Ms(u16),
    Far,
    /// not representable as an Instant (Timer::from_duration(Duration::MAX))
    Unrep,
}

#[derive(Clone, Debug, PartialEq, Eq, Serialize, Deserialize)]
pub enum Kind {
    Ping,
    Chan { bound: Option<u8> },
    Timer { dl: Dl },
    Gen { fd: FdKind, int: Int, md: Md },
    Exec,
    Stream,
    /// composite of n eventfd-backed Generic children (READ/Level), optionally each in a TransientSource
    /// n Generic sub-sources (plain or each wrapped in a TransientSource); `timer`: a Timer sub-source registered
    /// before them (a watchdog: never lapses, always has a representable deadline)
    Comp {
        n: u8,
        transient: bool,
        #[serde(default)]
        timer: Option<Dl>,
    },
    /// a user-written source that registers its eventfd with the Poll directly and calls its callback for
    /// every event it is handed (no token filtering of its own, no clean-up on drop)
    Raw,
}

impl Kind {
    pub fn code(&self) -> u64 {
        match self {
            Kind::Ping => 1,
            Kind::Chan { bound: None } => 2,
            Kind::Chan { bound: Some(_) } => 3,
            Kind::Timer { .. } => 4,
            Kind::Gen { md: Md::Level, .. } => 5,
            Kind::Gen { md: Md::Edge, .. } => 6,
            Kind::Gen { md: Md::OneShot, .. } => 7,
            Kind::Exec => 8,
            Kind::Stream => 9,
            Kind::Comp { transient: false, .. } => 10,
            Kind::Comp { transient: true, .. } => 11,
            Kind::Raw => 12,
        }
    }
    pub fn name(&self) -> &'static str {
        match self {
            Kind::Ping => "ping",
            Kind::Chan { bound: None } => "channel",
            Kind::Chan { bound: Some(_) } => "sync_channel",
            Kind::Timer { .. } => "timer",
            Kind::Gen { .. } => "generic",
            Kind::Exec => "executor",
            Kind::Stream => "stream",
            Kind::Comp { transient: false, .. } => "composite",
            Kind::Comp { transient: true, .. } => "composite_transient",
            Kind::Raw => "raw_custom",
        }
    }
}

#[derive(Clone, Copy, Debug, PartialEq, Eq, Serialize, Deserialize, Hash)]
pub enum RegCall {
    Register,
    Reregister,
    Unregister,
}

/// fail the n-th call (0-based) of one registration method of the source
#[derive(Clone, Copy, Debug, PartialEq, Eq, Serialize, Deserialize)]
pub struct Fault {
    pub on: RegCall,
    pub nth: u8,
    /// fail before delegating to the wrapped source (true) or after it succeeded (false)
    pub before: bool,
    /// a source that fails late without undoing what it had registered (sloppy user code)
    #[serde(default)]
    pub sloppy: bool,
}

/// what a callback returns to its source
#[derive(Clone, Copy, Debug, PartialEq, Eq, Serialize, Deserialize, Hash)]
pub enum Ret {
    Continue,
    Reregister,
    Disable,
    Remove,
    Err,
}

/// what a timer callback returns
#[derive(Clone, Copy, Debug, PartialEq, Eq, Serialize, Deserialize, Hash)]
pub enum TAct {
    Drop,
    ToInstant(Dl),
    ToDuration(u16),
    /// ToDuration(Duration::MAX): not representable
    ToDurationMax,
}

/// which source an operation is aimed at; resolved when the operation runs
#[derive(Clone, Copy, Debug, PartialEq, Eq, Serialize, Deserialize, Hash)]
pub enum Sel {
    /// the source whose callback is running (outside a callback: the operation is skipped)
    Me,
    /// the i-th (mod n) inserted source that fits the operation
    Live(u8),
    /// the i-th (mod n) inserted source that fits, other than the running one
    Other(u8),
    /// the token of the i-th (mod n) source that has been removed
    Dead(u8),
}

#[derive(Clone, Debug, PartialEq, Eq, Serialize, Deserialize)]
pub enum Op {
    Insert(Box<SourceSpec>),
    Remove(Sel),
    Disable(Sel),
    Enable(Sel),
    Update(Sel),
    /// a cause for the selected source: ping / send / write readiness / (re-)schedule
    Ping(Sel),
    Send(Sel),
    DropSender(Sel),
    /// drop one Ping handle (the source closes when the last one goes)
    DropPing(Sel),
    ClonePing(Sel),
    WriteFd(Sel, u8),
    DrainFd(Sel, u8),
    /// make a write-interest fd not writable (fill its buffer) / writable again (peer drains)
    FillFd(Sel, u8),
    UnfillFd(Sel, u8),
    ClosePeer(Sel, u8),
    /// timer: set_deadline + update
    SetDeadline(Sel, Dl),
    Schedule(Sel, u8),
    WakeTask(Sel, u8),
    StreamPush(Sel),
    /// an item the stream hands out only after having woken itself once from inside poll_next
    StreamPushSelfWake(Sel),
    StreamEnd(Sel),
    /// lifecycle source: return a synthetic event from the next before_sleep
    ArmSynth(Sel),
    InsertIdle(Box<IdleSpec>),
    CancelIdle(u8),
    DropIdleHandle(u8),
    /// adapt_io on a fresh socket (adapter kept by the harness)
    Adapt(AdaptFd),
    AdapterDrop(u8),
    AdapterIntoInner(u8),
    /// take the released fd of a removed Generic source and insert it again
    Reinsert(u8),
    /// use every dead token with enable/disable/update/remove
    ProbeDead,
    /// insert and remove a trivial source n times in a row (slot reuse, generation growth)
    Churn(u16),
    /// 1100 messages at once on a channel
    SendBurst(Sel),
    /// LoopSignal::wakeup(): the next wait returns at once, with no event
    Wakeup,
    /// a composite hands one of its Generic sub-sources back to the user: Generic::unwrap() while registered
    UnwrapChild(Sel, u8),
    /// enable() on a source that is enabled already: the poller rejects the duplicate fd, the call fails and
    /// nothing changes (the source keeps its events and its lifecycle hooks)
    EnableAgain(Sel),
    /// more stream items than any per-dispatch batch limit could take (1100), made ready at once
    StreamBurst(Sel),
    /// change interest and mode of a Generic through the Dispatcher, then update()
    Retarget(Sel, Int, Md),
    /// LoopSignal::stop(): only run() looks at the flag, a plain dispatch is not affected by it
    Stop,
    /// register_dispatcher() with the Dispatcher of a source that is registered already: the poller
    /// rejects the duplicate fd, the call must fail and change nothing
    RegisterAgain(Sel),
}

#[derive(Clone, Copy, Debug, PartialEq, Eq, Serialize, Deserialize, Hash)]
pub enum AdaptFd {
    /// a fresh socketpair end, blocking beforehand
    SocketBlocking,
    /// a fresh socketpair end, already non-blocking
    SocketNonblocking,
    /// a regular file: the poller rejects it (EPERM)
    RegularFile,
    /// an fd that is already registered in this loop (EEXIST)
    Duplicate,
}

#[derive(Clone, Debug, PartialEq, Eq, Serialize, Deserialize, Default)]
pub struct IdleSpec {
    pub ops: Vec<Op>,
}

#[derive(Clone, Debug, PartialEq, Eq, Serialize, Deserialize)]
pub struct CbStep {
    pub ops: Vec<Op>,
    pub ret: Ret,
    pub tact: TAct,
    /// what the child of a transient composite returns to its TransientSource wrapper
    #[serde(default = "ret_continue")]
    pub child_ret: Ret,
}

fn ret_continue() -> Ret {
    Ret::Continue
}

impl Default for CbStep {
    fn default() -> CbStep {
        CbStep { ops: vec![], ret: Ret::Continue, tact: TAct::ToInstant(Dl::Far), child_ret: Ret::Continue }
    }
}

#[derive(Clone, Debug, PartialEq, Eq, Serialize, Deserialize)]
pub struct SourceSpec {
    pub kind: Kind,
    /// opted into before_sleep / before_handle_events
    pub lifecycle: bool,
    /// program of the callback: entry k is run by the k-th invocation
    pub prog: Vec<CbStep>,
    pub fault: Option<Fault>,
    /// insert through insert_source (the loop owns the only handle) instead of register_dispatcher
    pub via_insert: bool,
    /// for Generic: use an fd the poller rejects / a duplicate of a registered fd
    pub bad_fd: Option<BadFd>,
    /// inserted disabled-from-birth? (insert then disable at once)
    pub ready_at_insert: bool,
    /// the callback closure owns an Async adapter of the same loop (dropped with the callback)
    #[serde(default)]
    pub owns_adapter: bool,
    /// (lifecycle sources) the n-th call of before_sleep fails
    #[serde(default)]
    pub bs_fail: Option<u8>,
}

#[derive(Clone, Copy, Debug, PartialEq, Eq, Serialize, Deserialize, Hash)]
pub enum BadFd {
    RegularFile,
    Duplicate,
    Closed,
}

#[derive(Clone, Debug, PartialEq, Eq, Serialize, Deserialize)]
pub enum Step {
    Op(Op),
    /// dispatch with this timeout in milliseconds
    Dispatch(u16),
    /// dispatch(None) while a synthetic event is armed (skipped otherwise)
    DispatchNone,
    Sleep(u16),
}

#[derive(Clone, Debug, PartialEq, Eq, Serialize, Deserialize)]
pub struct History {
    pub profile: String,
    pub steps: Vec<Step>,
    /// how the history ends: 0 = drop the harness' handles, then the loop; 1 = loop first
    pub end: u8,
}

impl History {
    pub fn size(&self) -> usize {
        fn op_size(op: &Op) -> usize {
            match op {
                Op::Insert(s) => 1 + s.prog.iter().map(|c| 1 + c.ops.iter().map(op_size).sum::<usize>()).sum::<usize>(),
                Op::InsertIdle(i) => 1 + i.ops.iter().map(op_size).sum::<usize>(),
                _ => 1,
            }
        }
        self.steps
            .iter()
            .map(|s| match s {
                Step::Op(o) => op_size(o),
                _ => 1,
            })
            .sum()
    }
}
