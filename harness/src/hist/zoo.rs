//! The source zoo: one instrumented wrapper type around every built-in calloop source (and a
//! composite of Generic children), plus scripted futures and streams. The wrapper only logs,
//! injects the faults the history asks for and forwards; all the work is done by the real sources.

use super::exec;
use super::spec::*;
use super::world::*;
use calloop::channel::{Channel, Event as ChanEvent};
use calloop::futures::Executor;
use calloop::generic::Generic;
use calloop::ping::PingSource;
use calloop::stream::StreamSource;
use calloop::timer::{TimeoutAction, Timer};
use calloop::transient::TransientSource;
use calloop::{EventIterator, EventSource, Poll, PostAction, Readiness, Token, TokenFactory};
use std::cell::RefCell;
use std::collections::VecDeque;
use std::future::Future;
use std::os::fd::{AsFd, AsRawFd, BorrowedFd, OwnedFd, RawFd};
use std::pin::Pin;
use std::rc::Rc;
use std::task::{Context, Poll as TaskPoll, Waker};
use std::time::{Duration, Instant};

pub type BoxErr = Box<dyn std::error::Error + Send + Sync>;

/// an fd handle that may own its fd, or merely name one (closed / borrowed fds for fault steps)
#[derive(Debug)]
pub struct FdX {
    pub raw: RawFd,
    pub owned: Option<OwnedFd>,
}

impl FdX {
    pub fn owned(fd: OwnedFd) -> FdX {
        FdX { raw: fd.as_raw_fd(), owned: Some(fd) }
    }
    pub fn named(raw: RawFd) -> FdX {
        FdX { raw, owned: None }
    }
}

impl AsFd for FdX {
    fn as_fd(&self) -> BorrowedFd<'_> {
        // SAFETY: for owned fds this is the owned fd; a merely named fd is only ever handed to
        // epoll_ctl/fcntl, which answer EBADF if it is not open
        unsafe { BorrowedFd::borrow_raw(self.raw) }
    }
}

impl std::io::Read for FdX {
    fn read(&mut self, buf: &mut [u8]) -> std::io::Result<usize> {
        let r = unsafe { libc::read(self.raw, buf.as_mut_ptr() as *mut libc::c_void, buf.len()) };
        if r < 0 {
            Err(std::io::Error::last_os_error())
        } else {
            Ok(r as usize)
        }
    }
}

impl std::io::Write for FdX {
    fn write(&mut self, buf: &[u8]) -> std::io::Result<usize> {
        let r = unsafe { libc::write(self.raw, buf.as_ptr() as *const libc::c_void, buf.len()) };
        if r < 0 {
            Err(std::io::Error::last_os_error())
        } else {
            Ok(r as usize)
        }
    }
    fn flush(&mut self) -> std::io::Result<()> {
        Ok(())
    }
}

// ---------------------------------------------------------------- scripted stream and future

#[derive(Default)]
pub struct StreamState {
    pub queue: VecDeque<u64>,
    /// everything pushed so far, in order (the oracle's copy)
    pub pushed: VecDeque<u64>,
    pub ended: bool,
    pub waker: Option<Waker>,
    pub polls: u64,
    /// items that become visible only after the stream has woken itself from inside poll_next
    pub hidden: VecDeque<u64>,
    pub self_wakes_due: u32,
    pub self_wakes_done: u64,
}

pub struct ScriptStream(pub Rc<RefCell<StreamState>>);

impl futures::Stream for ScriptStream {
    type Item = u64;
    fn poll_next(self: Pin<&mut Self>, cx: &mut Context<'_>) -> TaskPoll<Option<u64>> {
        let mut s = self.0.borrow_mut();
        s.polls += 1;
        let front = s.queue.front().copied();
        if let Some(x) = front {
            if s.hidden.front() == Some(&x) {
                // this item is not ready yet: the stream wakes itself from inside poll_next and reports Pending;
                // the item is handed out by the poll that this self-wake causes
                s.hidden.pop_front();
                s.self_wakes_due = s.self_wakes_due.saturating_sub(1);
                s.self_wakes_done += 1;
                s.waker = Some(cx.waker().clone());
                cx.waker().wake_by_ref();
                return TaskPoll::Pending;
            }
            s.queue.pop_front();
            TaskPoll::Ready(Some(x))
        } else if s.ended {
            TaskPoll::Ready(None)
        } else {
            s.waker = Some(cx.waker().clone());
            TaskPoll::Pending
        }
    }
}

pub struct Fut {
    pub id: usize,
}

impl Future for Fut {
    type Output = u64;
    fn poll(self: Pin<&mut Self>, cx: &mut Context<'_>) -> TaskPoll<u64> {
        let id = self.id;
        let wk = cx.waker().clone();
        w(|w| {
            let d = w.dispatch_no;
            let on_loop = std::thread::current().id() == w.loop_tid;
            let in_dispatch = w.in_dispatch;
            w.count("task_poll");
            let t = &mut w.tasks[id];
            t.polls += 1;
            t.runnable = false;
            t.polled_at = d;
            let owner = t.owner;
            let r = if t.polls >= t.polls_needed as u32 {
                t.completed = true;
                t.waker = None;
                TaskPoll::Ready(t.id)
            } else {
                t.waker = Some(wk);
                TaskPoll::Pending
            };
            if !on_loop || !in_dispatch {
                w.alarm("C10.loop_thread_only", "polled-outside-dispatch", format!("task {} of executor #{} polled outside a dispatch of the loop thread", id, owner));
            }
            w.srcs[owner].last_cb_dispatch = d; // a poll is the executor's way of serving a runnable task
            r
        })
    }
}

impl Drop for Fut {
    fn drop(&mut self) {
        let id = self.id;
        let _ = try_w(|w| {
            w.tasks[id].dropped += 1;
            w.tasks[id].waker = None;
        });
    }
}

// ---------------------------------------------------------------- events and returns

#[derive(Clone, Debug)]
pub enum Ev {
    Ping,
    Msg(u64),
    Closed,
    Timeout(Instant),
    Fd { child: usize, readable: bool, writable: bool },
    Done(u64),
    Item(Option<u64>),
    Synth,
}

impl Ev {
    pub fn short(&self) -> String {
        match self {
            Ev::Ping => "ping".into(),
            Ev::Msg(m) => format!("msg({:#x})", m),
            Ev::Closed => "closed".into(),
            Ev::Timeout(_) => "timeout".into(),
            Ev::Fd { child, readable, writable } => format!("fd(child {}, r={}, w={})", child, readable, writable),
            Ev::Done(t) => format!("done(task {})", t),
            Ev::Item(i) => format!("item({:?})", i),
            Ev::Synth => "synthetic".into(),
        }
    }
}

#[derive(Clone, Copy, Debug)]
pub struct CbRet {
    pub post: Ret,
    pub child: Ret,
    pub tact: TAct,
}

pub fn to_pa(r: Ret) -> PostAction {
    match r {
        Ret::Continue | Ret::Err => PostAction::Continue,
        Ret::Reregister => PostAction::Reregister,
        Ret::Disable => PostAction::Disable,
        Ret::Remove => PostAction::Remove,
    }
}

pub fn from_pa(p: PostAction) -> Ret {
    match p {
        PostAction::Continue => Ret::Continue,
        PostAction::Reregister => Ret::Reregister,
        PostAction::Disable => Ret::Disable,
        PostAction::Remove => Ret::Remove,
    }
}

pub fn resolve_dl(dl: Dl) -> Option<Instant> {
    let now = Instant::now();
    match dl {
        Dl::Past => now.checked_sub(Duration::from_millis(50)).or(Some(now)),
        Dl::Now => Some(now),
        Dl::Ms(n) => Some(now + Duration::from_millis(n as u64)),
        Dl::Far => Some(now + Duration::from_secs(3600)),
        Dl::Unrep => None,
    }
}

fn injected(what: &str) -> BoxErr {
    Box::new(std::io::Error::new(std::io::ErrorKind::Other, format!("injected failure: {}", what)))
}

fn injected_calloop(what: &str) -> calloop::Error {
    calloop::Error::IoError(std::io::Error::new(std::io::ErrorKind::Other, format!("injected failure: {}", what)))
}

// ---------------------------------------------------------------- the wrapper

pub enum Child {
    Plain(Generic<FdX>),
    Tr(TransientSource<Generic<FdX>>),
    /// the sub-source was unwrapped (its fd handed back to the user)
    Taken,
}

pub enum Inner {
    Ping(PingSource),
    Chan(Channel<u64>),
    Timer(Timer),
    Gen(Generic<FdX>),
    Exec(Executor<u64>),
    Stream(StreamSource<ScriptStream>),
    Comp(Option<Timer>, Vec<Child>),
    Raw(FdX),
    Gone,
}

pub struct Zoo<const L: bool> {
    pub uid: Uid,
    pub inner: Inner,
    pub synth_token: Option<Token>,
    pub registered: bool,
}

pub struct CbGuard(pub Uid);
impl Drop for CbGuard {
    fn drop(&mut self) {
        let uid = self.0;
        let _ = try_w(|w| w.srcs[uid].cb_drops += 1);
    }
}

impl<const L: bool> Drop for Zoo<L> {
    fn drop(&mut self) {
        let uid = self.uid;
        let _ = try_w(|w| {
            w.srcs[uid].src_drops += 1;
            w.tr(|| format!("drop source #{}", uid));
        });
    }
}

impl<const L: bool> Zoo<L> {
    /// the Timer of a timer source or the watchdog of a composite
    pub fn timer_mut(&mut self) -> Option<&mut Timer> {
        match &mut self.inner {
            Inner::Timer(t) => Some(t),
            Inner::Comp(tm, _) => tm.as_mut(),
            _ => None,
        }
    }
    /// should this registration call fail by injection? (counts the call)
    fn fault(&mut self, call: RegCall) -> Option<bool> {
        let uid = self.uid;
        w(|w| {
            let s = &mut w.srcs[uid];
            let idx = call as usize;
            let n = s.fault_seen[idx];
            s.fault_seen[idx] = n.saturating_add(1);
            match s.spec.fault {
                Some(f) if f.on == call && f.nth == n => {
                    s.fault_fired = true;
                    Some(f.before)
                }
                _ => None,
            }
        })
    }

    fn inner_register(&mut self, poll: &mut Poll, f: &mut TokenFactory) -> calloop::Result<()> {
        match &mut self.inner {
            Inner::Ping(s) => s.register(poll, f),
            Inner::Chan(s) => s.register(poll, f),
            Inner::Timer(s) => s.register(poll, f),
            Inner::Gen(s) => s.register(poll, f),
            Inner::Exec(s) => s.register(poll, f),
            Inner::Stream(s) => s.register(poll, f),
            Inner::Comp(tm, cs) => {
                if let Some(t) = tm {
                    t.register(poll, f)?;
                }
                for c in cs.iter_mut() {
                    match c {
                        Child::Plain(g) => g.register(poll, f)?,
                        Child::Tr(t) => t.register(poll, f)?,
                        Child::Taken => {}
                    }
                }
                Ok(())
            }
            Inner::Raw(fd) => unsafe { poll.register(&*fd, calloop::Interest::READ, calloop::Mode::Level, f.token()) },
            Inner::Gone => Ok(()),
        }
    }
    fn inner_reregister(&mut self, poll: &mut Poll, f: &mut TokenFactory) -> calloop::Result<()> {
        match &mut self.inner {
            Inner::Ping(s) => s.reregister(poll, f),
            Inner::Chan(s) => s.reregister(poll, f),
            Inner::Timer(s) => s.reregister(poll, f),
            Inner::Gen(s) => s.reregister(poll, f),
            Inner::Exec(s) => s.reregister(poll, f),
            Inner::Stream(s) => s.reregister(poll, f),
            Inner::Comp(tm, cs) => {
                if let Some(t) = tm {
                    t.reregister(poll, f)?;
                }
                for c in cs.iter_mut() {
                    match c {
                        Child::Plain(g) => g.reregister(poll, f)?,
                        Child::Tr(t) => t.reregister(poll, f)?,
                        Child::Taken => {}
                    }
                }
                Ok(())
            }
            Inner::Raw(fd) => poll.reregister(&*fd, calloop::Interest::READ, calloop::Mode::Level, f.token()),
            Inner::Gone => Ok(()),
        }
    }
    fn inner_unregister(&mut self, poll: &mut Poll) -> calloop::Result<()> {
        match &mut self.inner {
            Inner::Ping(s) => s.unregister(poll),
            Inner::Chan(s) => s.unregister(poll),
            Inner::Timer(s) => s.unregister(poll),
            Inner::Gen(s) => s.unregister(poll),
            Inner::Exec(s) => s.unregister(poll),
            Inner::Stream(s) => s.unregister(poll),
            Inner::Comp(tm, cs) => {
                if let Some(t) = tm {
                    t.unregister(poll)?;
                }
                for c in cs.iter_mut() {
                    match c {
                        Child::Plain(g) => g.unregister(poll)?,
                        Child::Tr(t) => t.unregister(poll)?,
                        Child::Taken => {}
                    }
                }
                Ok(())
            }
            Inner::Raw(fd) => poll.unregister(&*fd),
            Inner::Gone => Ok(()),
        }
    }
}

impl<const L: bool> EventSource for Zoo<L> {
    type Event = Ev;
    type Metadata = ();
    type Ret = CbRet;
    type Error = BoxErr;

    const NEEDS_EXTRA_LIFECYCLE_EVENTS: bool = L;

    fn process_events<F>(&mut self, readiness: Readiness, token: Token, mut callback: F) -> Result<PostAction, BoxErr>
    where
        F: FnMut(Ev, &mut ()) -> CbRet,
    {
        let uid = self.uid;
        let key = token.verif_key();
        exec::pe_begin(uid, key, readiness.readable, readiness.writable);
        let mut acc = Ret::Continue;
        let mut deliver = |ev: Ev| -> CbRet {
            let r = callback(ev, &mut ());
            if acc == Ret::Continue {
                acc = r.post;
            }
            r
        };
        let is_synth = L && self.synth_token == Some(token);
        let inner_res: Result<PostAction, BoxErr> = if is_synth {
            exec::synth_delivered(uid);
            deliver(Ev::Synth);
            Ok(PostAction::Continue)
        } else {
            match &mut self.inner {
                Inner::Ping(s) => s
                    .process_events(readiness, token, |(), _| {
                        deliver(Ev::Ping);
                    })
                    .map_err(|e| e.into()),
                Inner::Chan(s) => s
                    .process_events(readiness, token, |e, _| {
                        match e {
                            ChanEvent::Msg(m) => deliver(Ev::Msg(m)),
                            ChanEvent::Closed => deliver(Ev::Closed),
                        };
                    })
                    .map_err(|e| e.into()),
                Inner::Timer(s) => {
                    let r = s
                        .process_events(readiness, token, |dl, _| {
                            let r = deliver(Ev::Timeout(dl));
                            match r.tact {
                                TAct::Drop => {
                                    exec::timer_rearmed(uid, None);
                                    TimeoutAction::Drop
                                }
                                TAct::ToInstant(d) => match resolve_dl(d) {
                                    Some(i) => {
                                        exec::timer_rearmed(uid, Some((i, i)));
                                        TimeoutAction::ToInstant(i)
                                    }
                                    None => {
                                        exec::timer_rearmed(uid, None);
                                        TimeoutAction::ToDuration(Duration::MAX)
                                    }
                                },
                                TAct::ToDuration(ms) => {
                                    let d = Duration::from_millis(ms as u64);
                                    // the timer computes now()+d itself: the deadline lies between now+d
                                    // taken here and now+d taken when process_events has returned
                                    exec::timer_rearmed(uid, Some((Instant::now() + d, Instant::now() + d + Duration::from_secs(3600))));
                                    exec::timer_pending_hi(uid, d);
                                    TimeoutAction::ToDuration(d)
                                }
                                TAct::ToDurationMax => {
                                    exec::timer_rearmed(uid, None);
                                    TimeoutAction::ToDuration(Duration::MAX)
                                }
                            }
                        })
                        .map_err(|e| e.into());
                    exec::timer_close_hi(uid);
                    r
                }
                Inner::Gen(s) => s
                    .process_events(readiness, token, |r, _| {
                        let cr = deliver(Ev::Fd { child: 0, readable: r.readable, writable: r.writable });
                        match cr.post {
                            Ret::Err => Err(std::io::Error::new(std::io::ErrorKind::Other, "injected failure: callback")),
                            p => Ok(to_pa(p)),
                        }
                    })
                    .map_err(|e| e.into()),
                Inner::Exec(s) => s
                    .process_events(readiness, token, |id, _| {
                        deliver(Ev::Done(id));
                    })
                    .map_err(|e| e.into()),
                Inner::Stream(s) => s
                    .process_events(readiness, token, |it, _| {
                        deliver(Ev::Item(it));
                    })
                    .map_err(|e| e.into()),
                Inner::Comp(tm, cs) => {
                    let mut action = PostAction::Continue;
                    let mut err: Option<BoxErr> = None;
                    if let Some(t) = tm {
                        // the watchdog sub-source: it never lapses (Drop and unrepresentable deadlines become "far")
                        let r = t.process_events(readiness, token, |dl, _| {
                            let r = deliver(Ev::Timeout(dl));
                            match r.tact {
                                TAct::ToInstant(d) if resolve_dl(d).is_some() => {
                                    let i = resolve_dl(d).unwrap();
                                    exec::timer_rearmed(uid, Some((i, i)));
                                    TimeoutAction::ToInstant(i)
                                }
                                TAct::ToDuration(ms) => {
                                    let d = Duration::from_millis(ms as u64);
                                    exec::timer_rearmed(uid, Some((Instant::now() + d, Instant::now() + d + Duration::from_secs(3600))));
                                    exec::timer_pending_hi(uid, d);
                                    TimeoutAction::ToDuration(d)
                                }
                                _ => {
                                    let i = Instant::now() + Duration::from_secs(3600);
                                    exec::timer_rearmed(uid, Some((i, i)));
                                    TimeoutAction::ToInstant(i)
                                }
                            }
                        });
                        exec::timer_close_hi(uid);
                        if let Err(e) = r {
                            err = Some(e.into());
                        }
                    }
                    for (k, c) in cs.iter_mut().enumerate() {
                        if err.is_some() {
                            break;
                        }
                        let mut cbk = |r: Readiness, _: &mut calloop::generic::NoIoDrop<FdX>| -> std::io::Result<PostAction> {
                            let cr = deliver(Ev::Fd { child: k, readable: r.readable, writable: r.writable });
                            Ok(to_pa(cr.child))
                        };
                        let r = match c {
                            Child::Plain(g) => g.process_events(readiness, token, &mut cbk).map(|_| PostAction::Continue),
                            Child::Tr(t) => t.process_events(readiness, token, &mut cbk),
                            Child::Taken => Ok(PostAction::Continue),
                        };
                        match r {
                            Ok(a) => action |= a,
                            Err(e) => {
                                err = Some(e.into());
                                break;
                            }
                        }
                    }
                    match err {
                        Some(e) => Err(e),
                        None => Ok(action),
                    }
                }
                Inner::Raw(_) => {
                    // every event the loop hands over reaches the callback
                    deliver(Ev::Fd { child: 0, readable: readiness.readable, writable: readiness.writable });
                    Ok(PostAction::Continue)
                }
                Inner::Gone => Ok(PostAction::Continue),
            }
        };
        drop(deliver);
        let out: Result<PostAction, BoxErr> = match inner_res {
            Err(e) => Err(e),
            Ok(a) => match acc {
                // a wrapped source that is finished (closed channel/ping, ended stream, dropped timer) leaves the loop
                // whatever the callback program wanted to return
                _ if a == PostAction::Remove => Ok(PostAction::Remove),
                Ret::Err => Err(injected("process_events")),
                Ret::Continue => Ok(a),
                r => Ok(to_pa(r)),
            },
        };
        exec::pe_end(uid, out.as_ref().ok().copied().map(from_pa), out.is_err());
        out
    }

    fn register(&mut self, poll: &mut Poll, f: &mut TokenFactory) -> calloop::Result<()> {
        let uid = self.uid;
        let fault = self.fault(RegCall::Register);
        if fault == Some(true) {
            exec::reg_event(uid, RegCall::Register, false, true);
            return Err(injected_calloop("register (before delegating)"));
        }
        // the wrapper's own token (synthetic events) is taken first so that its sub-id never depends on how
        // many tokens the wrapped source asks for this time
        let synth = if L { Some(f.token()) } else { None };
        let mut res = self.inner_register(poll, f);
        if res.is_ok() {
            self.registered = true;
            self.synth_token = synth;
        }
        if fault == Some(false) && res.is_ok() {
            // a source that fails late undoes what it did, then reports the failure (unless it is sloppy)
            let sloppy = w(|w| w.srcs[uid].spec.fault.map(|f| f.sloppy).unwrap_or(false));
            if !sloppy {
                let _ = self.inner_unregister(poll);
            }
            self.synth_token = None;
            self.registered = false;
            res = Err(injected_calloop("register (after delegating)"));
            exec::reg_event(uid, RegCall::Register, false, true);
            return res;
        }
        exec::reg_event(uid, RegCall::Register, res.is_ok(), false);
        res
    }

    fn reregister(&mut self, poll: &mut Poll, f: &mut TokenFactory) -> calloop::Result<()> {
        let uid = self.uid;
        let fault = self.fault(RegCall::Reregister);
        if fault == Some(true) {
            exec::reg_event(uid, RegCall::Reregister, false, true);
            return Err(injected_calloop("reregister (before delegating)"));
        }
        let synth = if L { Some(f.token()) } else { None };
        let mut res = self.inner_reregister(poll, f);
        if res.is_ok() && self.registered {
            // (a source that is not registered has no token to receive synthetic events with)
            self.synth_token = synth;
        }
        if fault == Some(false) && res.is_ok() {
            res = Err(injected_calloop("reregister (after delegating)"));
            exec::reg_event(uid, RegCall::Reregister, false, true);
            return res;
        }
        exec::reg_event(uid, RegCall::Reregister, res.is_ok(), false);
        res
    }

    fn unregister(&mut self, poll: &mut Poll) -> calloop::Result<()> {
        let uid = self.uid;
        let fault = self.fault(RegCall::Unregister);
        if fault == Some(true) {
            exec::reg_event(uid, RegCall::Unregister, false, true);
            return Err(injected_calloop("unregister (before delegating)"));
        }
        let mut res = self.inner_unregister(poll);
        if res.is_ok() {
            self.synth_token = None;
            self.registered = false;
        }
        if fault == Some(false) && res.is_ok() {
            res = Err(injected_calloop("unregister (after delegating)"));
            exec::reg_event(uid, RegCall::Unregister, false, true);
            return res;
        }
        exec::reg_event(uid, RegCall::Unregister, res.is_ok(), false);
        res
    }

    fn before_sleep(&mut self) -> calloop::Result<Option<(Readiness, Token)>> {
        let uid = self.uid;
        let want = exec::before_sleep(uid);
        if exec::before_sleep_fails(uid, want) {
            return Err(injected_calloop("before_sleep"));
        }
        if want {
            if let Some(t) = self.synth_token {
                exec::synth_returned(uid, t.verif_key());
                return Ok(Some((Readiness { readable: true, writable: false, error: false }, t)));
            }
        }
        Ok(None)
    }

    fn before_handle_events(&mut self, events: EventIterator<'_>) {
        let items: Vec<(usize, bool, bool)> = events.map(|(r, t)| (t.verif_key(), r.readable, r.writable)).collect();
        exec::before_handle_events(self.uid, items);
    }
}
