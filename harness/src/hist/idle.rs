//! Idle callbacks (C13).

use super::ops::{self, Ctx};
use super::spec::*;
use super::world::*;
use calloop::LoopHandle;

struct IdleGuard(usize);
impl Drop for IdleGuard {
    fn drop(&mut self) {
        let id = self.0;
        let _ = try_w(|w| w.idles[id].dropped += 1);
    }
}

pub fn insert_idle(h: &LoopHandle<'static, ()>, spec: &IdleSpec, ctx: Ctx) {
    let id = w(|w| {
        let id = w.idles.len();
        let d = w.dispatch_no;
        let from_idle = matches!(ctx, Ctx::Idle(_));
        w.idles.push(IdleRec {
            id,
            handle: None,
            inserted_dispatch: d,
            from_idle_in_dispatch: if from_idle { Some(d) } else { None },
            in_dispatch: w.in_dispatch,
            cancelled: false,
            ran: 0,
            ran_dispatch: 0,
            dropped: 0,
            spec: spec.clone(),
        });
        w.count("idle_insert");
        w.tr(|| format!("insert_idle -> idle {}", id));
        id
    });
    let guard = IdleGuard(id);
    let handle = h.insert_idle(move |_: &mut ()| {
        let _g = &guard;
        on_idle(id);
    });
    w(|w| w.idles[id].handle = Some(handle));
}

/// cancel (true) or merely drop the handle (false) of the i-th idle that still has its handle
pub fn cancel_idle(i: u8, cancel: bool) {
    let h = w(|w| {
        let c: Vec<usize> = w.idles.iter().filter(|r| r.handle.is_some()).map(|r| r.id).collect();
        if c.is_empty() {
            return None;
        }
        let id = c[i as usize % c.len()];
        let running = w.running_idle == Some(id);
        let r = &mut w.idles[id];
        let h = r.handle.take();
        if cancel && r.ran == 0 {
            r.cancelled = true;
        }
        if cancel && running {
            w.idle_self_cancel = true;
            w.count("idle_self_cancel");
        }
        w.count(if cancel { "idle_cancel" } else { "idle_drop_handle" });
        w.tr(|| format!("{} idle {}", if cancel { "cancel" } else { "drop handle of" }, id));
        h
    });
    if let Some(h) = h {
        if cancel {
            // (a running idle that cancels itself is flagged so that a failure is attributed to it)
            h.cancel();
            w(|w| w.idle_self_cancel = false);
        } else {
            drop(h);
        }
    }
}

fn on_idle(id: usize) {
    let ops = w(|w| {
        super::exec::close_window(w);
        w.tick();
        w.count("idle_ran");
        let d = w.dispatch_no;
        let in_dispatch = w.in_dispatch;
        w.idle_phase = true;
        w.running_idle = Some(id);
        let last = w.idle_order.last().copied();
        w.idle_order.push(id);
        let r = &mut w.idles[id];
        r.ran += 1;
        r.ran_dispatch = d;
        let (ran, cancelled, from_idle) = (r.ran, r.cancelled, r.from_idle_in_dispatch);
        let ops = r.spec.ops.clone();
        w.tr(|| format!("  IDLE {} runs", id));
        if ran > 1 {
            w.alarm("C13.once", "idle-ran-twice", format!("idle {} ran {} times", id, ran));
        }
        if cancelled {
            w.alarm("C13.cancelled_never", "cancelled-idle-ran", format!("idle {} ran although it was cancelled", id));
        }
        if from_idle == Some(d) {
            w.alarm("C13.idle_from_idle_next_dispatch", "ran-in-inserting-dispatch", format!("idle {} was inserted by an idle callback of dispatch {} and ran in the same dispatch", id, d));
        }
        if let Some(l) = last {
            if l > id {
                w.alarm("C13.insertion_order", "ran-before-earlier-idle", format!("idle {} ran after idle {} although it was inserted before", id, l));
            }
        }
        if !in_dispatch {
            w.alarm("C13.after_sources", "idle-outside-dispatch", format!("idle {} ran outside a dispatch", id));
        }
        ops
    });
    for op in &ops {
        ops::exec_op(op, Ctx::Idle(id));
    }
    w(|w| w.running_idle = None);
}
