//! Runs one history against a fresh loop: steps, dispatch with its before/after monitors,
//! quiescent-point invariants, release checks, teardown.

use super::exec::{close_window, fd_ready_for};
use super::ops::{self, Ctx};
use super::spec::*;
use super::world::*;
use super::zoo::*;
use crate::sysx;
use calloop::verif::Site;
use calloop::EventLoop;
use std::collections::BTreeMap;
use std::os::fd::AsRawFd;
use std::panic::{catch_unwind, AssertUnwindSafe};
use std::time::{Duration, Instant};

#[derive(Clone, Debug)]
pub struct RunCfg {
    pub prop: String,
    pub trace: bool,
}

#[derive(Clone, Debug, Default)]
pub struct Outcome {
    pub alarms: Vec<Alarm>,
    pub ev: BTreeMap<String, u64>,
    pub class: u64,
    pub trace: Vec<String>,
    pub harness_fault: Option<String>,
    pub steps_run: usize,
}

fn hist_hook(site: Site) {
    match site {
        Site::WaitPre => {
            let _ = try_w(|w| {
                let s = w.tick();
                w.wait_pre_seq = s;
            });
        }
        Site::WaitPost => {
            let _ = try_w(|w| {
                let s = w.tick();
                w.wait_post_seq = s;
            });
        }
        _ => {}
    }
}

fn kind_cause_name(k: &Kind) -> &'static str {
    match k {
        Kind::Ping => "ping",
        Kind::Chan { .. } => "channel",
        Kind::Timer { .. } => "expired-timer",
        Kind::Gen { md: Md::Level, .. } => "level-fd",
        Kind::Gen { md: Md::Edge, .. } => "edge-fd",
        Kind::Gen { md: Md::OneShot, .. } => "oneshot-fd",
        Kind::Exec => "runnable-task",
        Kind::Stream => "stream-item",
        Kind::Comp { .. } => "composite-fd",
        Kind::Raw => "level-fd",
    }
}

fn compute_must(w: &mut World) {
    let now = Instant::now();
    let tasks_runnable: Vec<Uid> = w.tasks.iter().filter(|t| t.runnable && !t.completed && t.dropped == 0).map(|t| t.owner).collect();
    for s in w.srcs.iter_mut() {
        s.must = None;
        s.enabled_at_dispatch_start = s.st == St::Enabled;
        s.cbs_in_dispatch = 0;
        s.ping_cbs_in_dispatch = 0;
        s.life = LifeDispatch::default();
        if s.st != St::Enabled {
            continue;
        }
        let m: Option<&str> = match &s.spec.kind {
            Kind::Ping => (s.pings > 0).then_some("ping pending"),
            Kind::Chan { .. } => {
                if !s.queue.is_empty() {
                    Some("message queued")
                } else if s.senders.is_empty() && s.closed_reported == 0 {
                    Some("all senders gone")
                } else {
                    None
                }
            }
            Kind::Timer { .. } => match &s.arm {
                Some(a) if !a.fired && a.hi <= now => Some("deadline passed"),
                _ => None,
            },
            Kind::Gen { .. } | Kind::Comp { .. } | Kind::Raw => {
                let mut any = false;
                for c in s.fds.iter() {
                    if c.child != ChildSt::Kept || c.child_pending != ChildSt::Kept || c.int == Int::Empty {
                        continue;
                    }
                    let ready = fd_ready_for(c);
                    any |= match c.md {
                        Md::Level => ready,
                        Md::OneShot => ready && c.armed,
                        Md::Edge => ready && c.edge_pending,
                    };
                }
                let due = s.is_timer() && matches!(&s.arm, Some(a) if !a.fired && a.hi <= now);
                if any {
                    Some("fd ready for a requested interest")
                } else if due {
                    Some("deadline passed")
                } else {
                    None
                }
            }
            Kind::Exec => tasks_runnable.contains(&s.uid).then_some("runnable task"),
            Kind::Stream => match &s.stream {
                Some(st) => {
                    let st = st.borrow();
                    // (a hidden item counts once the stream has issued the self-wake that announces it)
                    // (an item that still awaits its self-wake is owed a poll, not yet a callback: it is at the head
                    // of the queue and listed in `hidden`)
                    let head_hidden = st.queue.front().is_some() && st.queue.front() == st.hidden.front();
                    ((!st.queue.is_empty() && !head_hidden) || (st.ended && st.queue.is_empty() && s.stream_none == 0)).then_some("stream item ready")
                }
                None => None,
            },
        };
        s.must = m.map(|x| x.to_string());
    }
}

fn location_culprit(loc: &str) -> String {
    let l = loc.rsplit("/repo/").next().unwrap_or(loc);
    l.chars().map(|c| if c.is_alphanumeric() || c == '.' { c } else { '_' }).collect()
}

/// one dispatch with all before/after monitors; returns false if the execution cannot go on
pub fn do_dispatch(el: &mut EventLoop<'static, ()>, timeout: Option<Duration>) -> Result<bool, ()> {
    w(|w| {
        close_window(w);
        w.dispatch_no += 1;
        w.in_dispatch = true;
        w.idle_phase = false;
        w.dispatch_failed = false;
        w.first_pe_seq = 0;
        w.wait_pre_seq = 0;
        w.wait_post_seq = 0;
        w.cbs_this_dispatch = 0;
        w.timer_cb_deadlines.clear();
        w.idle_order.clear();
        w.reg_ctx = RegCtx::None;
        compute_must(w);
        w.count("dispatch");
        w.tr(|| format!("DISPATCH {:?}", timeout));
        w.t_before = Instant::now();
    });
    let t0 = Instant::now();
    // C13 also drives single iterations through run() and block_on(), which have their own calls of the idle phase
    let (mode, sig) = w(|w| (if w.prop == "C13" { w.dispatch_no % 6 } else { 0 }, w.signal.clone()));
    let r = catch_unwind(AssertUnwindSafe(|| match (mode, sig) {
        (4, Some(sig)) => el.run(timeout, &mut (), |_| sig.stop()),
        (5, Some(sig)) => {
            // a future that asks for the stop during its first poll: block_on performs exactly one iteration
            let mut first = true;
            let s2 = sig.clone();
            // (block_on waits without a timeout: the wake-up that accompanies the stop request ends the wait)
            el.block_on(
                std::future::poll_fn(move |_| {
                    if first {
                        first = false;
                        s2.stop();
                        s2.wakeup();
                    }
                    std::task::Poll::<()>::Pending
                }),
                &mut (),
                |_| {},
            )
            .map(|_| ())
        }
        _ => el.dispatch(timeout, &mut ()),
    }));
    let elapsed = t0.elapsed();
    let mut go_on = true;
    let ok = w(|w| {
        close_window(w);
        w.in_dispatch = false;
        w.running = None;
        w.running_idle = None;
        for s in w.srcs.iter_mut() {
            s.in_process = false;
        }
        let d = w.dispatch_no;
        if w.cbs_this_dispatch > w.cov_max_batch {
            w.cov_max_batch = w.cbs_this_dispatch;
        }
        match &r {
            Err(p) => {
                let msg = crate::panic_message(p.as_ref());
                let loc = crate::last_panic_loc();
                if loc.contains("/verif/") || loc.contains("cverif") || loc.contains("harness/src") {
                    w.harness_fault = Some(format!("panic in harness code at {}: {}", loc, msg));
                } else if w.idle_self_cancel {
                    // Idle::cancel is not one of the handle operations C08 lists; cancelling from idle callbacks is C13's
                    w.alarm("C13.cancel_from_idle", "running-idle-cancels-itself", format!("an idle callback cancelling its own handle made dispatch panic at {}: {}", loc, msg));
                } else {
                    if w.prop != "C08" && !w.prop.is_empty() {
                        // whatever the property: a dispatch that panics inside calloop has not kept it
                        let cl = format!("{}.no_panic", w.prop);
                        w.alarm(&cl, &format!("panic-at-{}", location_culprit(&loc)), format!("dispatch panicked at {}: {}", loc, msg));
                    }
                    w.alarm("C08.panic", &format!("panic-at-{}", location_culprit(&loc)), format!("dispatch panicked at {}: {}", loc, msg));
                    if loc.contains("loop_logic.rs") && msg.contains("unreachable") {
                        w.alarm("C15.no_later_panic", "dispatch-panics-after-failed-registration", format!("dispatch panicked at {}: {}", loc, msg));
                        w.alarm("C14.set_size", "stale-entry-panics-dispatch", format!("dispatch panicked at {}: {}", loc, msg));
                    }
                }
                go_on = false;
                false
            }
            Ok(Err(e)) => {
                w.count("dispatch_err");
                w.tr(|| format!("DISPATCH -> Err({})", e));
                if !w.dispatch_failed && !w.had_reg_failure {
                    w.alarm("C15.unexpected_dispatch_error", "error-without-failing-source", format!("dispatch returned {} although no source failed", e));
                }
                // synthetic events announced before the dispatch failed stay owed
                for s in w.srcs.iter_mut() {
                    if s.life.synth_returned && s.life.synth_delivered == 0 && matches!(s.st, St::Enabled | St::Limbo) {
                        s.synth_owed = true;
                    }
                }
                let ran: Vec<usize> = w.idles.iter().filter(|i| i.ran_dispatch == d).map(|i| i.id).collect();
                if !ran.is_empty() {
                    w.alarm("C13.no_idle_on_err", "idle-ran-in-failed-dispatch", format!("idles {:?} ran although dispatch {} returned an error", ran, d));
                }
                false
            }
            Ok(Ok(())) => {
                w.tr(|| "DISPATCH -> Ok".to_string());
                if w.dispatch_failed {
                    w.alarm("C15.dispatch_error_reported", "error-swallowed", format!("a source failed in dispatch {} but dispatch returned Ok", d));
                }
                true
            }
        }
    });
    if !go_on {
        return Err(());
    }
    if ok {
        after_ok_dispatch(timeout, elapsed);
    }
    // the poller's table is looked at before the harness takes removed sources apart (taking a Generic
    // apart deletes its fd from the poller and would hide a missing unregistration)
    quiescent_checks();
    release_due();
    Ok(ok)
}

fn after_ok_dispatch(timeout: Option<Duration>, elapsed: Duration) {
    w(|w| {
        let d = w.dispatch_no;
        // C02 & friends: every source that had a cause when the wait began was served
        for i in 0..w.srcs.len() {
            let s = &w.srcs[i];
            let Some(reason) = s.must.clone() else { continue };
            if s.last_cb_dispatch == d || s.touched_at == d || s.st != St::Enabled {
                continue;
            }
            if s.fds.iter().any(|c| c.modified_at == d) {
                continue;
            }
            let kind = s.spec.kind.clone();
            let uid = s.uid;
            let after_enable = s.enabled_since_cb;
            let cause = kind_cause_name(&kind);
            let detail = format!("source #{} ({}) had a pending cause when dispatch {} began ({}) but its callback was not invoked", uid, kind.name(), d, reason);
            let from_cb = w.srcs[i].cause_from_cb;
            w.alarm("C02.missed", &format!("{}-not-dispatched", cause), detail.clone());
            if from_cb {
                // the event an operation produces is the same whether the operation was issued inside a callback or outside
                w.alarm("C08.effect_as_outside", &format!("{}-caused-inside-a-callback-never-delivered", cause), detail.clone());
            }
            match kind {
                Kind::Timer { .. } => w.alarm("C05.first_dispatch", "expired-timer-not-fired", detail.clone()),
                Kind::Ping => w.alarm("C03.no_lost", "ping-not-delivered", detail.clone()),
                Kind::Chan { .. } => w.alarm("C04.no_stranded", "message-stranded", detail.clone()),
                Kind::Exec => w.alarm("C10.polled_after_wake", "runnable-task-not-polled", detail.clone()),
                Kind::Stream => w.alarm("C10.stream_in_order", "stream-item-not-delivered", detail.clone()),
                _ => {}
            }
            if after_enable {
                w.alarm("C07.readiness_retained", &format!("{}-lost-across-disable", cause), detail);
            }
        }
        // C05: deadline order within the batch
        let tds = w.timer_cb_deadlines.clone();
        for p in tds.windows(2) {
            if p[1].1 < p[0].1 {
                w.alarm("C05.order", "later-deadline-fired-first", format!("timer #{} (deadline later by {:?}) fired before timer #{} in dispatch {}", p[0].0, p[0].1 - p[1].1, p[1].0, d));
            }
        }
        // C14: lifecycle calls
        let (wpre, wpost) = (w.wait_pre_seq, w.wait_post_seq);
        let failed = w.dispatch_failed;
        for i in 0..w.srcs.len() {
            let s = &w.srcs[i];
            if !s.spec.lifecycle || s.st == St::Limbo {
                // (nothing is demanded of a source whose enable/disable/update failed)
                continue;
            }
            let uid = s.uid;
            let life = s.life.clone();
            let touched = s.touched_at == d;
            if s.enabled_at_dispatch_start {
                if life.bs != 1 {
                    w.alarm("C14.once", &format!("before_sleep-called-{}-times", life.bs.min(3)), format!("enabled lifecycle source #{} got {} before_sleep calls in dispatch {}", uid, life.bs, d));
                }
                if life.bhe != 1 {
                    w.alarm("C14.once", &format!("before_handle_events-called-{}-times", life.bhe.min(3)), format!("enabled lifecycle source #{} got {} before_handle_events calls in dispatch {}", uid, life.bhe, d));
                }
                if life.bs == 1 && life.bhe == 1 && !(life.bs_seq < wpre && wpre < wpost && wpost < life.bhe_seq) {
                    w.alarm("C14.order", "hooks-not-around-the-wait", format!("source #{}: before_sleep@{} wait {}..{} before_handle_events@{}", uid, life.bs_seq, wpre, wpost, life.bhe_seq));
                }
            }
            if life.synth_returned && !touched {
                if life.synth_delivered == 0 {
                    w.alarm("C14.synthetic", "synthetic-not-delivered", format!("source #{} returned a synthetic event from before_sleep in dispatch {} but never got it", uid, d));
                } else if life.synth_delivered > 1 && !(life.synth_delivered == 2 && w.srcs[i].synth_maybe) {
                    w.alarm("C14.synthetic", "synthetic-delivered-twice", format!("source #{} got its synthetic event {} times", uid, life.synth_delivered));
                }
            }
            if life.bhe >= 1 && !touched && !failed {
                let mut a = life.items.clone();
                let mut b = life.pes.clone();
                a.sort();
                b.sort();
                if a != b {
                    let c = if a.iter().any(|x| x.0 == life.synth_key && life.synth_returned) { "synthetic-event-in-iterator" } else { "iterator-differs-from-processed-events" };
                    w.alarm("C14.iterator_exact", c, format!("source #{} dispatch {}: iterator yielded {:x?}, processed {:x?}", uid, d, a, b));
                }
            }
        }
        // (whatever the loop still held from a failed dispatch has been handed over or dropped by now)
        for s in w.srcs.iter_mut() {
            s.synth_maybe = false;
        }
        // C14: a synthetic event forces a non-blocking wait
        if let Some(to) = timeout {
            let any_synth = w.srcs.iter().any(|s| s.life.synth_returned);
            if any_synth && to >= Duration::from_millis(2500) && elapsed >= to {
                w.alarm("C14.synthetic_nonblocking", "waited-full-timeout", format!("dispatch waited {:?} although a synthetic event was pending", elapsed));
            }
        }
        // C13: every due idle ran
        for i in 0..w.idles.len() {
            let r = &w.idles[i];
            if r.ran == 0 && !r.cancelled && r.from_idle_in_dispatch != Some(d) {
                let id = r.id;
                let in_cb = r.in_dispatch || r.from_idle_in_dispatch.is_some();
                let ins = r.inserted_dispatch;
                w.alarm("C13.first_ok_dispatch", "idle-not-run", format!("idle {} (inserted in dispatch {}) did not run in the successful dispatch {}", id, ins, d));
                if in_cb {
                    // insert_idle() from inside a callback has the effect it has outside a dispatch
                    w.alarm("C08.effect_as_outside", "idle-inserted-in-callback-not-run", format!("idle {} was inserted from inside a callback of dispatch {} and did not run in the successful dispatch {}", id, ins, d));
                }
            }
        }
    });
}

/// sources removed during the last dispatch must have been released by now
fn release_due() {
    let due: Vec<Uid> = w(|w| w.srcs.iter().filter(|s| s.release_due && !s.released).map(|s| s.uid).collect());
    for u in due {
        check_released(u);
    }
}

/// C06: the loop has released a removed source: the harness' handle is the last one
pub fn check_released(uid: Uid) {
    let (disp, via) = w(|w| {
        let s = &mut w.srcs[uid];
        if s.released || s.st != St::Removed {
            return (None, false);
        }
        s.released = true;
        s.release_due = false;
        (s.disp.take(), s.spec.via_insert)
    });
    w(|w| {
        w.count("release_check");
        let s = &w.srcs[uid];
        if s.registered && !s.fault_fired {
            w.alarm("C06.released", "removed-source-never-unregistered", format!("source #{} was removed but the loop never unregistered it: its registrations (fd, timer, lifecycle entry) stay behind", uid));
        }
    });
    if let Some(d) = disp {
        let r = catch_unwind(AssertUnwindSafe(|| match d {
            DispZ::N(d) => {
                let mut z = d.into_source_inner();
                std::mem::replace(&mut z.inner, Inner::Gone)
            }
            DispZ::L(d) => {
                let mut z = d.into_source_inner();
                std::mem::replace(&mut z.inner, Inner::Gone)
            }
        }));
        match r {
            Ok(inner) => {
                if let Inner::Gen(g) = inner {
                    // the user keeps the Generic of the removed source; it is unwrapped when (and if) its fd is used again
                    w(|w| {
                        let s = &mut w.srcs[uid];
                        if g.get_ref().owned.is_some() {
                            let peer = s.fds.get_mut(0).and_then(|c| c.peer.take());
                            s.fd_released_peer = peer;
                            s.kept_generic = Some(g);
                        } else {
                            std::mem::forget(g.unwrap());
                        }
                    });
                } else {
                    drop(inner);
                }
            }
            Err(p) => {
                let msg = crate::panic_message(p.as_ref());
                w(|w| w.alarm("C06.released", "dispatcher-still-registered", format!("into_source_inner of removed source #{} panicked: {}", uid, msg)));
                return;
            }
        }
    } else if !via {
        return;
    }
    w(|w| {
        let s = &w.srcs[uid];
        let (sd, cd) = (s.src_drops, s.cb_drops);
        if sd != 1 || cd != 1 {
            let c = if sd == 0 || cd == 0 { "not-dropped-after-removal" } else { "dropped-more-than-once" };
            w.alarm("C06.dropped_once", c, format!("removed source #{}: source dropped {} times, callback dropped {} times", uid, sd, cd));
        }
    });
}

fn expected_events(int: Int, md: Md) -> u32 {
    let base = match int {
        Int::Read => 0x1b,
        Int::Write => 0x1c,
        Int::Both => 0x1f,
        Int::Empty => 0x18,
    };
    base | match md {
        Md::Level => 0,
        Md::Edge => 0x8000_0000,
        Md::OneShot => 0x4000_0000,
    }
}

fn events_match(actual: u32, int: Int, md: Md) -> bool {
    let want = expected_events(int, md);
    let a = actual & 0xC000_001f;
    if a == want {
        return true;
    }
    // the kernel always reports ERR|HUP; an interest-less registration may show them or not
    if int == Int::Empty && (a & !0x18) == (want & !0x18) {
        return true;
    }
    // a one-shot registration that has fired keeps only its private bits
    md == Md::OneShot && a == 0x4000_0000
}

/// invariants at quiescent points (outside a dispatch, after every step)
pub fn quiescent_checks() {
    let Some(h) = w(|w| w.handle.clone()) else { return };
    let stats = h.verif_stats();
    w(|w| {
        let Some(st) = stats else { return };
        let any_limbo = w.srcs.iter().any(|s| s.st == St::Limbo);
        let live = w.srcs.iter().filter(|s| s.inserted()).count();
        let adapters = w.adapters.iter().filter(|a| a.adapter.is_some()).count() + w.owned_fds.len();
        if st.occupied != live + adapters {
            let c = if st.occupied > live + adapters { "slot-still-occupied" } else { "slot-vanished" };
            w.alarm("C06.occupied", c, format!("{} slots occupied, the ledger has {} inserted sources and {} live adapters", st.occupied, live, adapters));
        }
        if st.pending_action != 0 {
            w.alarm("C09.carried_over", "pending-action-outlives-dispatch", format!("a deferred post action ({}) is still pending outside a dispatch", st.pending_action));
        }
        if !any_limbo {
            let want_life = w.srcs.iter().filter(|s| s.spec.lifecycle && s.st == St::Enabled).count();
            if st.lifecycle_len != want_life || st.lifecycle_distinct != want_life {
                let c = if st.lifecycle_len > st.lifecycle_distinct {
                    "duplicate-entry"
                } else if st.lifecycle_len > want_life {
                    "stale-entry"
                } else {
                    "missing-entry"
                };
                w.alarm("C14.set_size", c, format!("lifecycle set has {} entries ({} distinct), {} lifecycle sources are enabled", st.lifecycle_len, st.lifecycle_distinct, want_life));
            }
            let want_heap = w.srcs.iter().filter(|s| s.is_timer() && s.st == St::Enabled && s.arm.as_ref().map(|a| !a.fired).unwrap_or(false)).count();
            if st.timer_heap_len != want_heap {
                let c = if st.timer_heap_len > want_heap { "residue-in-timer-heap" } else { "armed-timer-missing-from-heap" };
                w.alarm("C05.no_residue", c, format!("timer heap holds {} entries, {} timers are armed", st.timer_heap_len, want_heap));
            }
        }
        if w.judge_c16 && !any_limbo && !w.had_reg_failure {
            check_epoll_table(w);
        }
    });
}

fn check_epoll_table(w: &mut World) {
    let table: Vec<sysx::EpEntry> = sysx::epoll_table(w.epfd).into_iter().filter(|e| e.data != u64::MAX).collect();
    let mut matched = vec![false; table.len()];
    let mut alarms: Vec<(String, String, String)> = Vec::new();
    for s in w.srcs.iter() {
        if s.st != St::Enabled {
            continue;
        }
        let Some(key) = s.token.map(|t| t.verif_key()) else { continue };
        match &s.spec.kind {
            Kind::Timer { .. } => {}
            Kind::Ping | Kind::Chan { .. } | Kind::Exec | Kind::Stream => {
                let idx: Vec<usize> = table.iter().enumerate().filter(|(_, e)| calloop::verif::same_source(e.data as usize, key)).map(|(i, _)| i).collect();
                if idx.len() != 1 {
                    alarms.push(("C16.exact".into(), if idx.is_empty() { "enabled-source-not-registered".into() } else { "registered-twice".into() }, format!("enabled {} source #{} has {} entries in the epoll table", s.spec.kind.name(), s.uid, idx.len())));
                }
                for i in idx {
                    matched[i] = true;
                    if !events_match(table[i].events, Int::Read, Md::Level) {
                        alarms.push(("C16.exact".into(), "wrong-interest-or-mode".into(), format!("{} source #{} registered with events {:#x}", s.spec.kind.name(), s.uid, table[i].events)));
                    }
                }
            }
            Kind::Gen { .. } | Kind::Comp { .. } | Kind::Raw => {
                for (k, c) in s.fds.iter().enumerate() {
                    let pos = table.iter().position(|e| e.tfd == c.src_raw);
                    let want = c.child == ChildSt::Kept;
                    match (pos, want) {
                        (Some(i), true) => {
                            matched[i] = true;
                            if !calloop::verif::same_source(table[i].data as usize, key) {
                                alarms.push(("C16.exact".into(), "wrong-key".into(), format!("fd {} of source #{} registered with key {:#x}, the source's token is {:#x}", c.src_raw, s.uid, table[i].data, key)));
                            }
                            if !events_match(table[i].events, c.int, c.md) {
                                alarms.push(("C16.exact".into(), "wrong-interest-or-mode".into(), format!("fd {} of source #{} ({:?}/{:?}) registered with events {:#x}", c.src_raw, s.uid, c.int, c.md, table[i].events)));
                            }
                        }
                        (None, true) => alarms.push(("C16.exact".into(), "enabled-source-not-registered".into(), format!("fd {} (sub-source {}) of enabled source #{} is not in the epoll table", c.src_raw, k, s.uid))),
                        (Some(i), false) => {
                            // (the fd number of a dropped child may have been reused by somebody else's fd:
                            // only an entry still carrying this source's key is a leftover)
                            if sysx::fd_is_open(c.src_raw) && calloop::verif::same_source(table[i].data as usize, key) && c.child != ChildSt::Gone {
                                matched[i] = true;
                                alarms.push(("C16.stale".into(), "entry-of-removed-sub-source".into(), format!("fd {} (sub-source {} of #{}, {:?}) is still registered", c.src_raw, k, s.uid, c.child)));
                            }
                        }
                        (None, false) => {}
                    }
                }
                // sub-source keys of one source are pairwise distinct
                let mut subs: Vec<u64> = table.iter().filter(|e| calloop::verif::same_source(e.data as usize, key)).map(|e| e.data).collect();
                let n = subs.len();
                subs.sort_unstable();
                subs.dedup();
                if subs.len() != n {
                    alarms.push(("C16.exact".into(), "duplicate-sub-key".into(), format!("source #{} has two fds registered under one key", s.uid)));
                } else if n > 0 && matches!(s.spec.kind, Kind::Gen { .. } | Kind::Comp { .. }) {
                    // a (re-)registration hands out consecutive sub-ids, beginning after the wrapper's own token and the
                    // watchdog's: the keys the kernel holds are the ones of the last registration round, not older ones
                    let off = s.spec.lifecycle as usize + (s.is_timer() && s.arm.is_some()) as usize;
                    let got: Vec<usize> = subs.iter().map(|d| calloop::verif::unpack(*d as usize).2 as usize).collect();
                    let want: Vec<usize> = (off..off + n).collect();
                    let timer_unsure = s.is_timer() && matches!(s.spec.kind, Kind::Comp { .. });
                    if got != want && !timer_unsure && !s.sparse_sub_ids {
                        alarms.push(("C16.exact".into(), "wrong-key".into(), format!("source #{} holds the sub-ids {:?} in the kernel, its last registration handed out {:?}", s.uid, got, want)));
                    }
                }
            }
        }
    }
    for a in w.adapters.iter() {
        if a.adapter.is_some() {
            match table.iter().position(|e| e.tfd == a.fd_raw) {
                Some(i) => matched[i] = true,
                None => alarms.push(("C16.exact".into(), "live-adapter-not-registered".into(), format!("fd {} of a live adapter is not in the epoll table", a.fd_raw))),
            }
        }
    }
    for raw in w.owned_fds.iter() {
        match table.iter().position(|e| e.tfd == *raw) {
            Some(i) => matched[i] = true,
            None => alarms.push(("C16.exact".into(), "live-adapter-not-registered".into(), format!("fd {} of a live adapter (owned by a callback) is not in the epoll table", raw))),
        }
    }
    for (i, e) in table.iter().enumerate() {
        if matched[i] {
            continue;
        }
        // whose was it?
        let owner = w
            .srcs
            .iter()
            .rev()
            .find(|s| s.fds.iter().any(|c| c.src_raw == e.tfd) || s.token.map(|t| calloop::verif::same_source(e.data as usize, t.verif_key())).unwrap_or(false))
            .map(|s| match s.st {
                St::Removed => "removed-source",
                St::Disabled => "disabled-source",
                St::Rejected => "rejected-source",
                _ => "other-source",
            });
        let owner = owner.or_else(|| w.adapters.iter().any(|a| a.fd_raw == e.tfd && a.adapter.is_none()).then_some("released-adapter")).unwrap_or("unknown-owner");
        alarms.push(("C16.stale".into(), format!("entry-of-{}", owner), format!("fd {} is registered (events {:#x}, key {:#x}) but belongs to no enabled source or live adapter", e.tfd, e.events, e.data)));
    }
    for (c, k, d) in alarms {
        w.alarm(&c, &k, d);
    }
}

fn own_alarm(prop: &str) -> bool {
    w(|w| w.alarms.iter().any(|a| a.clause.starts_with(prop) && a.clause.as_bytes().get(prop.len()) == Some(&b'.')))
}

pub fn run_history(h: &History, cfg: &RunCfg) -> Outcome {
    let r = catch_unwind(AssertUnwindSafe(|| run_inner(h, cfg)));
    match r {
        Ok(o) => o,
        Err(p) => {
            let msg = crate::panic_message(p.as_ref());
            let loc = crate::last_panic_loc();
            // tear the world down without running into a second panic
            let wd = W.with(|c| c.try_borrow_mut().ok().and_then(|mut g| g.take()));
            let mut o = Outcome::default();
            if let Some(mut wd) = wd {
                o.alarms = std::mem::take(&mut wd.alarms);
                o.trace = std::mem::take(&mut wd.trace);
                std::mem::forget(wd);
            }
            if loc.contains("/repo/") {
                o.alarms.push(Alarm { clause: "C08.panic".into(), culprit: format!("panic-at-{}", location_culprit(&loc)), detail: format!("panicked outside a dispatch at {}: {}", loc, msg), step: 0 });
            } else {
                o.harness_fault = Some(format!("harness panic at {}: {}", loc, msg));
            }
            calloop::verif::set_yield_hook(None);
            o
        }
    }
}

fn run_inner(h: &History, cfg: &RunCfg) -> Outcome {
    let mut el: EventLoop<'static, ()> = EventLoop::try_new().expect("event loop");
    let world = World::new(el.handle(), el.as_raw_fd());
    W.with(|c| *c.borrow_mut() = Some(world));
    w(|w| {
        w.trace_on = cfg.trace;
        w.allow_update_disabled = matches!(h.profile.as_str(), "C07" | "C05" | "C14" | "C01");
        w.matrix = h.profile == "C08";
        w.prop = cfg.prop.clone();
        w.signal = Some(el.get_signal());
    });
    calloop::verif::set_yield_hook(Some(hist_hook));
    let mut steps_run = 0;
    let mut dead = false;
    'steps: for (i, step) in h.steps.iter().enumerate() {
        w(|w| w.step_no = i);
        steps_run = i + 1;
        match step {
            Step::Op(op) => {
                // an operation outside a dispatch must not panic either
                let r = catch_unwind(AssertUnwindSafe(|| ops::exec_op(op, Ctx::Outside)));
                if let Err(p) = r {
                    let msg = crate::panic_message(p.as_ref());
                    let loc = crate::last_panic_loc();
                    w(|w| {
                        if loc.contains("/repo/") {
                            w.alarm("C08.panic", &format!("panic-at-{}", location_culprit(&loc)), format!("operation {:?} panicked at {}: {}", op, loc, msg));
                        } else {
                            w.harness_fault = Some(format!("harness panic at {}: {}", loc, msg));
                        }
                    });
                    dead = true;
                    break 'steps;
                }
            }
            Step::Sleep(ms) => std::thread::sleep(Duration::from_millis(*ms as u64)),
            Step::Dispatch(ms) => match do_dispatch(&mut el, Some(Duration::from_millis(*ms as u64))) {
                Err(()) => {
                    dead = true;
                    break 'steps;
                }
                Ok(true) => {}
                Ok(false) => {
                    if recover_after_error(&mut el).is_err() {
                        dead = true;
                        break 'steps;
                    }
                }
            },
            Step::DispatchNone => {
                // only meaningful while a synthetic event is armed on an enabled lifecycle source;
                // a generous finite timeout stands in for None so that a miss cannot hang the run
                let armed = w(|w| w.srcs.iter().any(|s| s.st == St::Enabled && s.spec.lifecycle && s.synth_armed));
                if armed {
                    match do_dispatch(&mut el, Some(Duration::from_millis(3000))) {
                        Err(()) => {
                            dead = true;
                            break 'steps;
                        }
                        Ok(true) => {}
                        Ok(false) => {
                            if recover_after_error(&mut el).is_err() {
                                dead = true;
                                break 'steps;
                            }
                        }
                    }
                }
            }
        }
        quiescent_checks();
        if own_alarm(&cfg.prop) || w(|w| w.harness_fault.is_some()) {
            break;
        }
    }
    calloop::verif::set_yield_hook(None);
    let clean = !dead && w(|w| w.alarms.is_empty() && w.harness_fault.is_none());
    teardown(el, h.end, clean, dead);
    let mut wd = W.with(|c| c.borrow_mut().take()).expect("world");
    let mut o = Outcome::default();
    o.steps_run = steps_run;
    o.alarms = std::mem::take(&mut wd.alarms);
    o.trace = std::mem::take(&mut wd.trace);
    o.harness_fault = wd.harness_fault.take();
    for (k, v) in wd.ev.iter() {
        o.ev.insert(k.to_string(), *v);
    }
    for (k, v) in wd.cov_extra.iter() {
        o.ev.insert(k.clone(), *v);
    }
    let batch_class = match wd.cov_max_batch {
        0 => 0,
        1 => 1,
        2..=3 => 2,
        4..=15 => 3,
        _ => 4,
    };
    o.class = crate::fnv(&[wd.cov_kinds, wd.cov_inops, wd.cov_rets, batch_class, crate::fnv_str(&h.profile)]);
    o
}

/// C15 nothing_lost: after a failing dispatch, whatever was pending and not served must be
/// served by the following successful dispatches without new stimulus
fn recover_after_error(el: &mut EventLoop<'static, ()>) -> Result<(), ()> {
    let mut watch: Vec<(Uid, String)> = w(|w| {
        let d = w.dispatch_no;
        w.srcs
            .iter()
            .filter(|s| s.must.is_some() && s.last_cb_dispatch != d && s.touched_at != d && s.st == St::Enabled && !s.pe_err && !s.fds.iter().any(|c| c.modified_at == d))
            .map(|s| (s.uid, s.must.clone().unwrap()))
            .collect()
    });
    // (delivery is only demanded for sources in good standing; a source in limbo may or may not get it)
    let mut owed: Vec<Uid> = w(|w| w.srcs.iter().filter(|s| s.synth_owed && s.st == St::Enabled).map(|s| s.uid).collect());
    let mut ok_seen = 0;
    for _ in 0..4 {
        if watch.is_empty() && owed.is_empty() && ok_seen >= 1 {
            break;
        }
        match do_dispatch(el, Some(Duration::ZERO)) {
            Err(()) => return Err(()),
            Ok(ok) => {
                let d = w(|w| w.dispatch_no);
                watch.retain(|(u, _)| w(|w| {
                    let s = &w.srcs[*u];
                    s.st == St::Enabled && s.last_cb_dispatch != d && s.touched_at != d && !s.fds.iter().any(|c| c.modified_at == d)
                }));
                // (a source that was disabled, removed or re-registered meanwhile is no longer owed anything)
                owed.retain(|u| w(|w| {
                    let s = &w.srcs[*u];
                    s.synth_owed && s.st == St::Enabled && s.touched_at != d
                }));
                if ok {
                    ok_seen += 1;
                    if ok_seen >= 2 {
                        break;
                    }
                }
            }
        }
    }
    if ok_seen >= 1 {
        w(|w| {
            for u in &owed {
                let detail = format!("source #{} had announced a synthetic event from before_sleep when the dispatch failed because of another source; {} later successful dispatches never delivered it", u, ok_seen);
                w.alarm("C15.nothing_lost", "synthetic-event-lost-after-failed-dispatch", detail.clone());
                w.alarm("C14.synthetic", "synthetic-not-delivered-after-failed-dispatch", detail);
                w.srcs[*u].synth_owed = false;
            }
            for (u, reason) in &watch {
                let kind = w.srcs[*u].spec.kind.clone();
                let cause = kind_cause_name(&kind);
                let detail = format!("source #{} ({}) had a pending cause ({}) when a dispatch failed because of another source; {} later successful dispatches never delivered it", u, kind.name(), reason, ok_seen);
                w.alarm("C15.nothing_lost", &format!("{}-lost-after-failed-dispatch", cause), detail.clone());
                if let Kind::Timer { .. } = kind {
                    w.alarm("C05.once", "arming-lost-after-failed-dispatch", detail.clone());
                }
                w.alarm("C02.missed", &format!("{}-lost-after-failed-dispatch", cause), detail);
            }
        });
    }
    Ok(())
}

/// C06 loop_drop: dropping the loop and every handle releases everything exactly once
fn teardown(el: EventLoop<'static, ()>, end: u8, judge: bool, dead: bool) {
    w(|w| w.reg_ctx = RegCtx::Free);
    if dead {
        // after a panic inside the loop its state is unknown: leak it rather than touch it again
        let wd = W.with(|c| c.borrow_mut().as_mut().map(|w| (w.handle.take(), std::mem::take(&mut w.adapters))));
        std::mem::forget(wd);
        let disps: Vec<Option<DispZ>> = w(|w| w.srcs.iter_mut().map(|s| s.disp.take()).collect());
        std::mem::forget(disps);
        std::mem::forget(el);
        return;
    }
    // adapters hold the loop's internals alive: they go first
    let adapters = w(|w| std::mem::take(&mut w.adapters));
    drop(adapters);
    // (an adapter owned by a callback is a handle to the loop held by the loop: the harness breaks
    // the cycle it made)
    let cells = w(|w| std::mem::take(&mut w.owned_cells));
    for c in cells {
        if let Some(rc) = c.upgrade() {
            let ad = rc.borrow_mut().take();
            drop(ad);
        }
    }
    let idle_handles: Vec<_> = w(|w| w.idles.iter_mut().map(|i| i.handle.take()).collect());
    drop(idle_handles);
    let handle = w(|w| w.handle.take());
    let sig = w(|w| w.signal.take());
    drop(sig);
    let disps: Vec<Option<DispZ>> = w(|w| w.srcs.iter_mut().map(|s| s.disp.take()).collect());
    let wakers: Vec<_> = w(|w| w.tasks.iter_mut().map(|t| t.waker.take()).collect());
    if end == 0 {
        drop(disps);
        drop(handle);
        drop(el);
    } else {
        drop(el);
        drop(handle);
        drop(disps);
    }
    drop(wakers);
    let scheds: Vec<_> = w(|w| w.srcs.iter_mut().map(|s| (s.sched.take(), s.stream.take(), s.kept_generic.take())).collect());
    drop(scheds);
    if !judge {
        return;
    }
    w(|w| {
        w.count("loop_drop_check");
        for i in 0..w.srcs.len() {
            let s = &w.srcs[i];
            if s.st == St::Fresh {
                continue;
            }
            let (sd, cd, uid) = (s.src_drops, s.cb_drops, s.uid);
            if sd != 1 || cd != 1 {
                let c = if sd == 0 || cd == 0 { "not-dropped-with-the-loop" } else { "dropped-more-than-once" };
                w.alarm("C06.loop_drop", c, format!("after dropping the loop and all handles: source #{} dropped {} times, its callback {} times", uid, sd, cd));
            }
        }
        for i in 0..w.idles.len() {
            let r = &w.idles[i];
            if r.dropped != 1 {
                let id = r.id;
                let n = r.dropped;
                w.alarm("C06.loop_drop", "idle-not-dropped-once", format!("idle {} dropped {} times", id, n));
            }
        }
        for i in 0..w.tasks.len() {
            let t = &w.tasks[i];
            if t.dropped != 1 && t.polls_needed > 0 {
                let (id, n, sched_ok) = (t.id, t.dropped, t.runnable || t.polls > 0 || t.completed);
                if sched_ok {
                    w.alarm("C10.drop_releases_all", "future-not-dropped-once", format!("future of task {} dropped {} times after its executor and the loop are gone", id, n));
                }
            }
        }
    });
}
