//! The harness' own record of one execution: trace, ledger (what the harness did and what the
//! API returned, never a prediction of the loop's internal order), alarms.

use super::spec::*;
use super::zoo::{StreamState, Zoo};
use calloop::channel::{Sender, SyncSender};
use calloop::futures::Scheduler;
use calloop::ping::Ping;
use calloop::{Dispatcher, Idle, LoopHandle, RegistrationToken};
use std::cell::RefCell;
use std::collections::{BTreeMap, VecDeque};
use std::os::fd::{OwnedFd, RawFd};
use std::rc::Rc;
use std::task::Waker;
use std::time::Instant;

pub type Uid = usize;

#[derive(Clone, Copy, Debug, PartialEq, Eq)]
pub enum St {
    /// created, insertion not attempted yet or in progress
    Fresh,
    Enabled,
    Disabled,
    Removed,
    /// insertion failed
    Rejected,
    /// an enable/disable/update of this source failed: its registration state is unknown, nothing is demanded of it any more
    Limbo,
}

#[derive(Clone, Copy, Debug, PartialEq, Eq)]
pub enum ChildSt {
    Kept,
    Disabled,
    Gone,
}

pub enum DispZ {
    N(Dispatcher<'static, Zoo<false>, ()>),
    L(Dispatcher<'static, Zoo<true>, ()>),
}

pub enum ChanTx {
    A(Sender<u64>),
    S(SyncSender<u64>),
}

#[derive(Clone, Debug)]
pub struct Arming {
    pub n: u32,
    /// the deadline lies in [lo, hi] (lo == hi when the harness chose the Instant itself)
    pub lo: Instant,
    pub hi: Instant,
    pub fired: bool,
}

pub struct FdChild {
    /// the fd the source registers (owned by the source; valid while the source is alive)
    pub src_raw: RawFd,
    /// the harness' end (other end of the pipe / socket, or a dup of the eventfd)
    pub peer: Option<OwnedFd>,
    pub kind: FdKind,
    pub int: Int,
    pub md: Md,
    /// one-shot: armed since the last (re)registration and not fired yet
    pub armed: bool,
    /// edge: a not-ready -> ready transition made by the harness (or readiness at registration) not reported yet
    pub edge_pending: bool,
    /// dispatch in which the harness last changed this fd's readiness from inside a callback
    pub modified_at: u64,
    /// dispatch in which this fd was last (re)registered from inside a callback
    pub rereg_at: u64,
    pub cbs: u64,
    /// composite child wrapped in a TransientSource: its state, and the change its own post action asked for
    pub child: ChildSt,
    pub child_pending: ChildSt,
}

pub struct TaskRec {
    pub id: u64,
    pub owner: Uid,
    pub polls_needed: u8,
    pub polls: u32,
    pub runnable: bool,
    pub completed: bool,
    pub delivered: u32,
    pub dropped: u32,
    pub waker: Option<Waker>,
    pub polled_at: u64,
}

pub struct IdleRec {
    pub id: usize,
    pub handle: Option<Idle<'static>>,
    pub inserted_dispatch: u64,
    /// inserted from an idle callback (must not run in the same dispatch)
    pub from_idle_in_dispatch: Option<u64>,
    /// inserted while a dispatch was in progress (source phase)
    pub in_dispatch: bool,
    pub cancelled: bool,
    pub ran: u32,
    pub ran_dispatch: u64,
    pub dropped: u32,
    pub spec: IdleSpec,
}

pub struct AdapterRec {
    pub fd_raw: RawFd,
    pub was_nonblocking: bool,
    pub adapter: Option<calloop::io::Async<'static, super::zoo::FdX>>,
    pub peer: Option<OwnedFd>,
    pub released_fd: Option<super::zoo::FdX>,
}

#[derive(Clone, Debug, Default)]
pub struct LifeDispatch {
    pub bs: u32,
    pub bhe: u32,
    pub bs_seq: u64,
    pub bhe_seq: u64,
    pub synth_returned: bool,
    pub synth_delivered: u32,
    pub synth_key: usize,
    pub items: Vec<(usize, bool, bool)>,
    pub pes: Vec<(usize, bool, bool)>,
}

pub struct Src {
    pub uid: Uid,
    pub spec: SourceSpec,
    pub st: St,
    pub token: Option<RegistrationToken>,
    pub disp: Option<DispZ>,
    pub in_process: bool,
    pub self_changed: bool,
    pub touched_at: u64,
    pub cb_count: usize,
    pub cbs_in_dispatch: u32,
    pub ping_cbs_in_dispatch: u32,
    pub last_cb_dispatch: u64,
    pub enabled_at_dispatch_start: bool,
    pub must: Option<String>,
    pub enabled_since_cb: bool,
    /// the source's last registration call left it registered with the poller
    pub registered: bool,
    pub disabled_by_post_action: bool,
    // ping
    pub ping_handles: Vec<Ping>,
    pub pings: u64,
    pub ping_closed: bool,
    // channel
    pub senders: Vec<ChanTx>,
    pub queue: VecDeque<u64>,
    pub closed_reported: u32,
    pub delivered: u64,
    // timer
    pub arm: Option<Arming>,
    pub arm_count: u32,
    /// mirror of the timer's deadline field (range when the timer computed it itself)
    pub deadline: Option<(Instant, Instant)>,
    pub pending_hi: Option<std::time::Duration>,
    pub layout_changed_at: u64,
    pub effective: Ret,
    pub last_timer_cb_deadline: Option<Instant>,
    // fds (Generic: one; composite: n)
    pub fds: Vec<FdChild>,
    // executor
    pub sched: Option<Scheduler<u64>>,
    // stream
    pub stream: Option<Rc<RefCell<StreamState>>>,
    pub stream_none: u32,
    // lifecycle
    pub synth_armed: bool,
    /// the cause this source is waiting to be served for was made by an operation issued from inside a callback
    pub cause_from_cb: bool,
    /// a sub-source left the composite without a re-registration: the remaining ones keep their (now sparse) sub-ids
    pub sparse_sub_ids: bool,
    /// a synthetic event this source announced in a dispatch that then failed: the loop still owes it
    pub synth_owed: bool,
    /// the source was unregistered while an announced event was still owed: the loop may still hand it over (to the
    /// re-registered wrapper) or drop it
    pub synth_maybe: bool,
    pub bs_calls: u32,
    pub life: LifeDispatch,
    // registration accounting
    pub reg_calls: [u32; 3],
    pub reg_window: Vec<(RegCall, bool)>,
    pub fault_seen: [u8; 3],
    pub fault_fired: bool,
    // post action accounting
    pub deferred: Option<Ret>,
    pub explicit: Ret,
    pub pe_err: bool,
    // drops
    pub src_drops: u32,
    pub cb_drops: u32,
    pub release_due: bool,
    pub released: bool,
    pub removed_dispatch: u64,
    pub fd_released: Option<super::zoo::FdX>,
    /// the Generic of a removed source, kept alive by its user (it may be unwrapped or dropped much later)
    pub kept_generic: Option<calloop::generic::Generic<super::zoo::FdX>>,
    pub fd_keepalive: Vec<super::zoo::FdX>,
    pub fd_released_peer: Option<OwnedFd>,
}

impl Src {
    pub fn new(uid: Uid, spec: SourceSpec) -> Src {
        Src {
            uid,
            spec,
            st: St::Fresh,
            token: None,
            disp: None,
            in_process: false,
            self_changed: false,
            touched_at: 0,
            cb_count: 0,
            cbs_in_dispatch: 0,
            ping_cbs_in_dispatch: 0,
            last_cb_dispatch: 0,
            enabled_at_dispatch_start: false,
            must: None,
            enabled_since_cb: false,
            registered: false,
            disabled_by_post_action: false,
            ping_handles: vec![],
            pings: 0,
            ping_closed: false,
            senders: vec![],
            queue: VecDeque::new(),
            closed_reported: 0,
            delivered: 0,
            arm: None,
            arm_count: 0,
            deadline: None,
            pending_hi: None,
            layout_changed_at: 0,
            effective: Ret::Continue,
            last_timer_cb_deadline: None,
            fds: vec![],
            sched: None,
            stream: None,
            stream_none: 0,
            synth_armed: false,
            cause_from_cb: false,
            sparse_sub_ids: false,
            synth_owed: false,
            synth_maybe: false,
            bs_calls: 0,
            life: LifeDispatch::default(),
            reg_calls: [0; 3],
            reg_window: vec![],
            fault_seen: [0; 3],
            fault_fired: false,
            deferred: None,
            explicit: Ret::Continue,
            pe_err: false,
            src_drops: 0,
            cb_drops: 0,
            release_due: false,
            released: false,
            removed_dispatch: 0,
            fd_released: None,
            kept_generic: None,
            fd_keepalive: vec![],
            fd_released_peer: None,
        }
    }
    pub fn inserted(&self) -> bool {
        matches!(self.st, St::Enabled | St::Disabled | St::Limbo)
    }
    pub fn is_timer(&self) -> bool {
        matches!(self.spec.kind, Kind::Timer { .. } | Kind::Comp { timer: Some(_), .. })
    }
}

#[derive(Clone, Debug, serde::Serialize)]
pub struct Alarm {
    /// "C05.never_early"
    pub clause: String,
    pub culprit: String,
    pub detail: String,
    pub step: usize,
}

/// who may receive registration calls right now
#[derive(Clone, Debug, PartialEq, Eq)]
pub enum RegCtx {
    /// nobody: any registration call is a foreign action
    None,
    /// an explicit API call aimed at this source
    Op(Uid),
    /// the post-action window after this source's process_events
    Post(Uid),
    /// registrations made by harness code that is outside the history (teardown)
    Free,
}

pub struct World {
    pub handle: Option<LoopHandle<'static, ()>>,
    pub epfd: RawFd,
    pub srcs: Vec<Src>,
    pub alarms: Vec<Alarm>,
    pub dispatch_no: u64,
    pub in_dispatch: bool,
    pub idle_phase: bool,
    pub running: Option<Uid>,
    pub running_idle: Option<usize>,
    pub step_no: usize,
    pub seq: u64,
    pub trace: Vec<String>,
    pub trace_on: bool,
    pub idles: Vec<IdleRec>,
    pub adapters: Vec<AdapterRec>,
    pub tasks: Vec<TaskRec>,
    pub reg_ctx: RegCtx,
    pub next_msg: u64,
    pub t_before: Instant,
    pub dispatch_failed: bool,
    pub any_pe_in_dispatch: bool,
    pub first_pe_seq: u64,
    pub wait_pre_seq: u64,
    pub wait_post_seq: u64,
    pub timer_cb_deadlines: Vec<(Uid, Instant)>,
    pub idle_order: Vec<usize>,
    pub loop_tid: std::thread::ThreadId,
    // coverage
    pub ev: BTreeMap<&'static str, u64>,
    pub cov_kinds: u64,
    pub cov_inops: u64,
    pub cov_rets: u64,
    pub cov_max_batch: u32,
    pub cbs_this_dispatch: u32,
    pub cov_extra: BTreeMap<String, u64>,
    /// profile flags the monitors need
    pub judge_c16: bool,
    pub had_reg_failure: bool,
    pub depth: u32,
    pub slot_reuses: u64,
    pub harness_fault: Option<String>,
    pub allow_update_disabled: bool,
    pub idle_self_cancel: bool,
    pub live_trace: bool,
    pub matrix: bool,
    pub prop: String,
    pub signal: Option<calloop::LoopSignal>,
    /// adapters owned by callback closures that have not been dropped yet
    /// an operation issued from inside a callback is being executed
    pub cur_op_in_cb: bool,
    pub owned_fds: Vec<RawFd>,
    /// fds that outlived the adapter that borrowed them (kept open to the end of the history)
    pub kept_fds: Vec<OwnedFd>,
    pub owned_cells: Vec<std::rc::Weak<RefCell<Option<OwnedAd>>>>,
}

thread_local! {
    pub static W: RefCell<Option<World>> = const { RefCell::new(None) };
}

/// short exclusive access to the world; never call into calloop from inside
pub fn w<R>(f: impl FnOnce(&mut World) -> R) -> R {
    W.with(|c| {
        let mut g = c.borrow_mut();
        f(g.as_mut().expect("world not initialised"))
    })
}

pub fn try_w<R>(f: impl FnOnce(&mut World) -> R) -> Option<R> {
    W.try_with(|c| {
        let mut g = c.try_borrow_mut().ok()?;
        g.as_mut().map(f)
    })
    .ok()
    .flatten()
}

impl World {
    pub fn new(handle: LoopHandle<'static, ()>, epfd: RawFd) -> World {
        World {
            handle: Some(handle),
            epfd,
            srcs: vec![],
            alarms: vec![],
            dispatch_no: 0,
            in_dispatch: false,
            idle_phase: false,
            running: None,
            running_idle: None,
            step_no: 0,
            seq: 0,
            trace: vec![],
            trace_on: false,
            idles: vec![],
            adapters: vec![],
            tasks: vec![],
            reg_ctx: RegCtx::None,
            next_msg: 1,
            t_before: Instant::now(),
            dispatch_failed: false,
            any_pe_in_dispatch: false,
            first_pe_seq: 0,
            wait_pre_seq: 0,
            wait_post_seq: 0,
            timer_cb_deadlines: vec![],
            idle_order: vec![],
            loop_tid: std::thread::current().id(),
            ev: BTreeMap::new(),
            cov_kinds: 0,
            cov_inops: 0,
            cov_rets: 0,
            cov_max_batch: 0,
            cbs_this_dispatch: 0,
            cov_extra: BTreeMap::new(),
            judge_c16: true,
            had_reg_failure: false,
            depth: 0,
            slot_reuses: 0,
            harness_fault: None,
            allow_update_disabled: false,
            idle_self_cancel: false,
            matrix: false,
            prop: String::new(),
            signal: None,
            cur_op_in_cb: false,
            owned_fds: vec![],
            kept_fds: vec![],
            owned_cells: vec![],
            live_trace: std::env::var_os("CVERIF_LIVE_TRACE").is_some(),
        }
    }
    pub fn tick(&mut self) -> u64 {
        self.seq += 1;
        self.seq
    }
    pub fn count(&mut self, k: &'static str) {
        *self.ev.entry(k).or_insert(0) += 1;
    }
    pub fn tr(&mut self, f: impl FnOnce() -> String) {
        if self.trace_on {
            let s = f();
            let line = format!("[{:>3}|d{}] {}", self.step_no, self.dispatch_no, s);
            if self.live_trace {
                eprintln!("{}", line);
            }
            self.trace.push(line);
        }
    }
    pub fn alarm(&mut self, clause: &str, culprit: &str, detail: String) {
        if self.alarms.len() < 64 {
            let step = self.step_no;
            self.tr(|| format!("!! ALARM {} / {} :: {}", clause, culprit, detail));
            self.alarms.push(Alarm { clause: clause.into(), culprit: culprit.into(), detail: detail.clone(), step });
            // C08, second half: an operation issued from inside a callback has the effect it would have outside a
            // dispatch. The deferred self-directed disable/update is the one mechanism that exists only inside
            // callbacks; when its accounting goes wrong the effect differs from the same call made outside.
            // C09: a re-registration that was applied to the source but left the poller with the old key or mask was
            // not applied where it counts
            if clause == "C16.exact" && matches!(culprit, "wrong-key" | "wrong-interest-or-mode" | "duplicate-sub-key") && self.prop == "C09" {
                self.alarms.push(Alarm { clause: "C09.applied_once".into(), culprit: format!("registration-not-effective-in-the-poller-{}", culprit), detail: detail.clone(), step });
            }
            // C09: Disable/Remove/Continue also decide whether the lifecycle hooks go on: hooks out of step with the
            // source's state mean an action was applied in part, or a discarded request was not discarded entirely
            if self.prop == "C09" && (clause == "C14.once" || clause == "C14.set_size" || clause == "C14.not_for_inactive") {
                self.alarms.push(Alarm { clause: "C09.applied_once".into(), culprit: format!("lifecycle-hooks-out-of-step-{}", culprit), detail: detail.clone(), step });
            }
            // C08: an in-callback disable()/remove() of a timer leaves nothing armed behind, exactly as outside a dispatch
            if clause == "C05.no_residue" && self.prop == "C08" && self.cov_inops != 0 {
                self.alarms.push(Alarm { clause: "C08.effect_as_outside".into(), culprit: format!("timer-{}", culprit), detail: detail.clone(), step });
            }
            // C15: the post-action of a healthy source is applied although another source failed in the same dispatch
            if clause == "C09.applied_once" && self.prop == "C15" && self.dispatch_failed {
                self.alarms.push(Alarm { clause: "C15.nothing_lost".into(), culprit: format!("post-action-lost-in-failed-dispatch-{}", culprit), detail: detail.clone(), step });
            }
            if clause.starts_with("C09.") && self.cov_inops != 0 {
                self.alarms.push(Alarm { clause: "C08.effect_as_outside".into(), culprit: format!("{}-{}", &clause[4..], culprit), detail, step });
            }
        }
    }
    /// S was the target of an operation or of its own post action during this dispatch
    pub fn touch(&mut self, uid: Uid) {
        if self.in_dispatch {
            let d = self.dispatch_no;
            self.srcs[uid].touched_at = d;
        }
    }
    pub fn touched_now(&self, uid: Uid) -> bool {
        self.srcs[uid].touched_at == self.dispatch_no && self.dispatch_no != 0
    }
}

/// an Async adapter of the same loop owned by a callback closure: it is dropped when the loop
/// drops the callback (or, an adapter being a handle to the loop, by the harness before it drops
/// the loop: the reference cycle is the user's)
pub struct OwnedAd {
    pub ad: Option<calloop::io::Async<'static, super::zoo::FdX>>,
    /// the adapter only borrows its fd: the fd outlives it (and must be out of the poller once the adapter is gone)
    pub keep: Option<std::os::fd::OwnedFd>,
    pub _peer: std::os::fd::OwnedFd,
    pub raw: RawFd,
}

impl Drop for OwnedAd {
    fn drop(&mut self) {
        drop(self.ad.take());
        let raw = self.raw;
        let keep = self.keep.take();
        try_w(|w| {
            w.owned_fds.retain(|f| *f != raw);
            w.count("callback_owned_adapter_dropped");
            if let Some(fd) = keep {
                w.kept_fds.push(fd);
            }
        });
    }
}
