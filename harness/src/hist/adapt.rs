//! Async adapters inside histories (creation, drop, into_inner) and re-insertion of released fds.

use super::build;
use super::ops::{snapshot, Ctx};
use super::spec::*;
use super::world::*;
use super::zoo::FdX;
use crate::sysx;
use calloop::LoopHandle;
use std::os::fd::AsRawFd;

pub fn adapt(h: &LoopHandle<'static, ()>, kind: AdaptFd, ctx: Ctx) {
    let dup_of = w(|w| w.srcs.iter().filter(|s| s.st == St::Enabled).flat_map(|s| s.fds.iter()).find(|c| c.child == ChildSt::Kept).map(|c| c.src_raw));
    let (fdx, peer, expect_fail) = match kind {
        AdaptFd::SocketBlocking | AdaptFd::SocketNonblocking => {
            let (a, b) = sysx::socket_pair();
            sysx::set_nonblocking(a.as_raw_fd(), kind == AdaptFd::SocketNonblocking);
            (FdX::owned(a), Some(b), false)
        }
        AdaptFd::RegularFile => (FdX::owned(build::regular_file()), None, true),
        AdaptFd::Duplicate => match dup_of {
            Some(raw) => (FdX::named(raw), None, true),
            None => return,
        },
    };
    let raw = fdx.raw;
    let was_nb = sysx::is_nonblocking(raw);
    let fl_before = sysx::get_fl(raw);
    let before = snapshot(h);
    w(|w| {
        w.count("adapt_io");
        w.tr(|| format!("adapt_io(fd {}, {:?})", raw, kind));
    });
    let r = h.adapt_io(fdx);
    let after = snapshot(h);
    let _ = ctx;
    // half of the adapters get used: one poll of readable() with a no-op waker arms the one-shot
    // registration, and a byte from the peer makes it fire in the next dispatch
    let r = r.map(|mut a| {
        if raw % 2 == 0 {
            use std::future::Future;
            let wk = futures::task::noop_waker();
            let mut cx = std::task::Context::from_waker(&wk);
            let mut fut = Box::pin(a.readable());
            let _ = fut.as_mut().poll(&mut cx);
            drop(fut);
            if let Some(p) = peer.as_ref() {
                sysx::write_fd(p.as_raw_fd(), b"x");
            }
            w(|w| w.count("adapter_armed_and_made_ready"));
        } else if raw % 4 == 1 {
            // a wait for readability is begun and abandoned while pending; the adapter is then asked for writability:
            // the registration the kernel holds must be the one asked for last
            use std::future::Future;
            let wk = futures::task::noop_waker();
            let mut cx = std::task::Context::from_waker(&wk);
            let mut fut = Box::pin(a.readable());
            let _ = fut.as_mut().poll(&mut cx);
            drop(fut);
            let mut fut = Box::pin(a.writable());
            let _ = fut.as_mut().poll(&mut cx);
            drop(fut);
            w(|w| {
                w.count("adapter_read_abandoned_then_write_armed");
                let table = sysx::epoll_table(w.epfd);
                if let Some(e) = table.iter().find(|e| e.tfd == raw) {
                    if e.events & 0xC000_001f != 0x4000_001c {
                        w.alarm("C16.exact", "wrong-interest-or-mode", format!("fd {} of an adapter last asked to wait for writability is registered with events {:#x}", raw, e.events));
                    }
                }
            });
        }
        a
    });
    match r {
        Ok(a) => w(|w| {
            if expect_fail {
                w.alarm("C15.err_returned", "failing-adapt-reported-ok", format!("adapt_io on fd {} ({:?}) returned Ok", raw, kind));
            }
            if !sysx::is_nonblocking(raw) {
                w.alarm("C17.nonblocking_inside", "adapter-left-fd-blocking", format!("fd {} is still blocking inside its adapter", raw));
            }
            w.adapters.push(AdapterRec { fd_raw: raw, was_nonblocking: was_nb, adapter: Some(a), peer, released_fd: None });
        }),
        Err(e) => {
            w(|w| {
                w.count("adapt_failed");
                w.had_reg_failure = true;
                w.judge_c16 = false;
                if !expect_fail {
                    w.harness_fault = Some(format!("adapt_io failed without a fault: {}", e));
                }
                build::check_as_if_not_made(w, &format!("failed adapt_io on fd {} ({})", raw, e), &before, &after);
                // the fd itself was consumed by the failed call; a duplicate names a live fd whose flags must be as before
                if kind == AdaptFd::Duplicate && sysx::get_fl(raw) != fl_before {
                    w.alarm("C15.as_if_not_made", "fd-flags-changed", format!("failed adapt_io left the flags of fd {} at {:#o}, before {:#o}", raw, sysx::get_fl(raw), fl_before));
                }
            });
        }
    }
}

/// drop (or unwrap) the i-th live adapter
pub fn release(i: u8, into_inner: bool) {
    let got = w(|w| {
        let c: Vec<usize> = w.adapters.iter().enumerate().filter(|(_, a)| a.adapter.is_some()).map(|(i, _)| i).collect();
        if c.is_empty() {
            return None;
        }
        let idx = c[i as usize % c.len()];
        w.count(if into_inner { "adapter_into_inner" } else { "adapter_drop" });
        let a = w.adapters[idx].adapter.take();
        w.tr(|| format!("{} adapter {}", if into_inner { "into_inner of" } else { "drop" }, idx));
        a.map(|a| (idx, a))
    });
    let Some((idx, a)) = got else { return };
    let fdx = if into_inner {
        Some(a.into_inner())
    } else {
        drop(a);
        None
    };
    w(|w| {
        let rec = &mut w.adapters[idx];
        let raw = rec.fd_raw;
        let want_nb = rec.was_nonblocking;
        if fdx.is_some() && sysx::fd_is_open(raw) {
            let nb = sysx::is_nonblocking(raw);
            rec.released_fd = fdx;
            if nb != want_nb {
                w.alarm("C17.mode_restored", "blocking-mode-not-restored", format!("fd {} non-blocking={} after into_inner, before the adapter: {}", raw, nb, want_nb));
            }
        }
    });
}

/// take a released fd (of a removed Generic source or of an unwrapped adapter) and insert it again
pub fn reinsert(i: u8, ctx: Ctx) {
    enum Got {
        FromSrc(Uid, calloop::generic::Generic<FdX>, Option<std::os::fd::OwnedFd>),
        FromAdapter(FdX),
    }
    let got = w(|w| {
        let srcs: Vec<Uid> = w.srcs.iter().filter(|s| s.kept_generic.is_some()).map(|s| s.uid).collect();
        let ads: Vec<usize> = w.adapters.iter().enumerate().filter(|(_, a)| a.released_fd.is_some()).map(|(i, _)| i).collect();
        let n = srcs.len() + ads.len();
        if n == 0 {
            return None;
        }
        let k = i as usize % n;
        if k < srcs.len() {
            let u = srcs[k];
            let g = w.srcs[u].kept_generic.take().unwrap();
            let p = w.srcs[u].fd_released_peer.take();
            Some(Got::FromSrc(u, g, p))
        } else {
            let a = ads[k - srcs.len()];
            Some(Got::FromAdapter(w.adapters[a].released_fd.take().unwrap()))
        }
    });
    let Some(got) = got else { return };
    let (fdx, peer, kindspec, late) = match got {
        Got::FromSrc(u, g, p) => {
            let k = w(|w| w.srcs[u].spec.kind.clone());
            if i % 2 == 0 {
                // the old wrapper is taken apart first, then the fd is inserted again
                (g.unwrap(), p, k, None)
            } else {
                // the fd is inserted again through a second handle while the old wrapper still exists;
                // the old wrapper is taken apart afterwards
                let raw = g.get_ref().raw;
                (FdX::named(raw), p, k, Some((u, g)))
            }
        }
        Got::FromAdapter(f) => (f, None, Kind::Gen { fd: FdKind::Socket, int: Int::Read, md: Md::Level }, None),
    };
    let spec = SourceSpec { kind: kindspec, lifecycle: false, prog: vec![], fault: None, via_insert: false, bad_fd: None, ready_at_insert: false, owns_adapter: false, bs_fail: None };
    // the harness reads and writes its sources' fds itself: they must never block
    sysx::set_nonblocking(fdx.raw, true);
    w(|w| w.count("reinsert_released_fd"));
    super::build::insert_with_fd(&spec, fdx, peer, ctx);
    if let Some((u, g)) = late {
        // unwrapping the wrapper of the *removed* source must leave the new registration of the same fd alone
        let owned = g.unwrap();
        w(|w| {
            w.count("old_wrapper_unwrapped_after_reinsertion");
            w.srcs[u].fd_keepalive.push(owned);
        });
    }
}
