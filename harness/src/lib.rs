//! Common infrastructure of the calloop runtime-verification harness:
//! PRNG, argument parsing, result records, kernel probes.

pub mod hist;
pub mod hookrec;
pub mod sched;
pub mod sysx;

use serde::{Deserialize, Serialize};
use std::collections::{BTreeMap, BTreeSet};

// ---------------------------------------------------------------- PRNG

/// xorshift64* generator; every random choice of the harness comes from one of these
#[derive(Clone, Debug)]
pub struct Rng(pub u64);

impl Rng {
    pub fn new(seed: u64) -> Rng {
        // splitmix the seed so that small seeds give unrelated streams
        let mut z = seed.wrapping_add(0x9E3779B97F4A7C15);
        z = (z ^ (z >> 30)).wrapping_mul(0xBF58476D1CE4E5B9);
        z = (z ^ (z >> 27)).wrapping_mul(0x94D049BB133111EB);
        z ^= z >> 31;
        Rng(if z == 0 { 0x1234_5678_9abc_def1 } else { z })
    }
    pub fn derive(seed: u64, a: u64, b: u64) -> Rng {
        Rng::new(seed ^ a.wrapping_mul(0xA24BAED4963EE407) ^ b.wrapping_mul(0x9FB21C651E98DF25))
    }
    pub fn next(&mut self) -> u64 {
        let mut x = self.0;
        x ^= x >> 12;
        x ^= x << 25;
        x ^= x >> 27;
        self.0 = x;
        x.wrapping_mul(0x2545F4914F6CDD1D)
    }
    /// uniform in 0..n (n > 0)
    pub fn below(&mut self, n: u64) -> u64 {
        debug_assert!(n > 0);
        self.next() % n
    }
    pub fn range(&mut self, lo: u64, hi_incl: u64) -> u64 {
        lo + self.below(hi_incl - lo + 1)
    }
    pub fn chance(&mut self, num: u64, den: u64) -> bool {
        self.below(den) < num
    }
    pub fn pick<'a, T>(&mut self, xs: &'a [T]) -> &'a T {
        &xs[self.below(xs.len() as u64) as usize]
    }
    /// weighted choice: returns the index
    pub fn weighted(&mut self, ws: &[u32]) -> usize {
        let tot: u64 = ws.iter().map(|w| *w as u64).sum();
        let mut r = self.below(tot.max(1));
        for (i, w) in ws.iter().enumerate() {
            if r < *w as u64 {
                return i;
            }
            r -= *w as u64;
        }
        ws.len() - 1
    }
}

// ---------------------------------------------------------------- args

#[derive(Clone, Debug)]
pub struct Args {
    pub prop: String,
    pub tier: String,
    pub seed: u64,
    pub shard: u64,
    pub nshards: u64,
    pub out: String,
    pub replay: Option<String>,
    pub extra: BTreeMap<String, String>,
}

impl Args {
    pub fn parse() -> Args {
        let mut a = Args {
            prop: String::new(),
            tier: "quick".into(),
            seed: 1,
            shard: 0,
            nshards: 1,
            out: String::new(),
            replay: None,
            extra: BTreeMap::new(),
        };
        let v: Vec<String> = std::env::args().skip(1).collect();
        let mut i = 0;
        while i < v.len() {
            let k = v[i].trim_start_matches("--").to_string();
            let val = v.get(i + 1).cloned().unwrap_or_default();
            match k.as_str() {
                "prop" => a.prop = val,
                "tier" => a.tier = val,
                "seed" => a.seed = val.parse().expect("seed"),
                "shard" => a.shard = val.parse().expect("shard"),
                "nshards" => a.nshards = val.parse().expect("nshards"),
                "out" => a.out = val,
                "replay" => a.replay = Some(val),
                _ => {
                    a.extra.insert(k, val);
                }
            }
            i += 2;
        }
        a
    }
    pub fn thorough(&self) -> bool {
        self.tier == "thorough"
    }
    pub fn get_u64(&self, k: &str, default: u64) -> u64 {
        self.extra.get(k).and_then(|s| s.parse().ok()).unwrap_or(default)
    }
    pub fn get_str(&self, k: &str) -> Option<&str> {
        self.extra.get(k).map(|s| s.as_str())
    }
}

// ---------------------------------------------------------------- results

/// One violation found by a monitor
#[derive(Clone, Debug, Serialize, Deserialize)]
pub struct Violation {
    pub prop: String,
    /// which clause of the property's oracle fired
    pub clause: String,
    /// culprit predicate evaluated on the (shrunk) witness; part of the signature
    pub culprit: String,
    /// human readable explanation with the observed values
    pub detail: String,
    /// everything needed to re-execute the witness
    pub replay: serde_json::Value,
}

impl Violation {
    pub fn signature(&self) -> String {
        format!("{}/{}/{}", self.prop, self.clause, self.culprit)
    }
}

/// What one engine process reports back to `check`
#[derive(Clone, Debug, Default, Serialize, Deserialize)]
pub struct RunResult {
    pub prop: String,
    pub engine: String,
    pub leg: String,
    pub shard: u64,
    /// executions / cases run
    pub evaluations: u64,
    /// executions that contained at least one event the property talks about
    pub nontrivial: u64,
    /// hashes of the coverage class of each non-trivial execution (distinct ones are counted by `check`)
    pub classes: BTreeSet<u64>,
    /// events observed per kind
    pub events: BTreeMap<String, u64>,
    /// named coverage classes (interleaving classes, matrix cells, ...) with hit counts
    pub coverage: BTreeMap<String, u64>,
    /// a few actual cases, written out
    pub samples: Vec<serde_json::Value>,
    pub violations: Vec<Violation>,
    /// alarms of clauses that belong to another property (counted, never reported here)
    pub foreign_alarms: BTreeMap<String, u64>,
    /// reasons for which some execution or the whole run could not decide
    pub inconclusive: Vec<String>,
    pub exhaustive: bool,
    pub notes: Vec<String>,
    pub wall_s: f64,
}

impl RunResult {
    pub fn new(args: &Args, engine: &str) -> RunResult {
        RunResult {
            prop: args.prop.clone(),
            engine: engine.into(),
            leg: args.get_str("leg").unwrap_or("native").into(),
            shard: args.shard,
            ..Default::default()
        }
    }
    pub fn ev(&mut self, k: &str, n: u64) {
        *self.events.entry(k.to_string()).or_insert(0) += n;
    }
    pub fn cov(&mut self, k: &str, n: u64) {
        *self.coverage.entry(k.to_string()).or_insert(0) += n;
    }
    pub fn write(&self, path: &str) {
        let s = serde_json::to_string(self).expect("serialize result");
        if path.is_empty() {
            println!("{}", s);
        } else {
            let tmp = format!("{}.part", path);
            std::fs::write(&tmp, s).expect("write result");
            std::fs::rename(&tmp, path).expect("rename result");
        }
    }
}

/// FNV-1a hash used for coverage classes (stable across runs and platforms)
pub fn fnv(parts: &[u64]) -> u64 {
    let mut h: u64 = 0xcbf29ce484222325;
    for p in parts {
        for b in p.to_le_bytes() {
            h ^= b as u64;
            h = h.wrapping_mul(0x100000001b3);
        }
    }
    h
}

pub fn fnv_str(s: &str) -> u64 {
    let mut h: u64 = 0xcbf29ce484222325;
    for b in s.as_bytes() {
        h ^= *b as u64;
        h = h.wrapping_mul(0x100000001b3);
    }
    h
}

/// Marker file: an engine writes the case it is about to run so that `check` can tell which
/// case a dying process was executing.
pub fn mark_case(out: &str, case: u64, what: &str) {
    if !out.is_empty() {
        let _ = std::fs::write(format!("{}.case", out), format!("{} {}", case, what));
    }
}

/// Extract a printable message from a panic payload
pub fn panic_message(p: &(dyn std::any::Any + Send)) -> String {
    if let Some(s) = p.downcast_ref::<&str>() {
        s.to_string()
    } else if let Some(s) = p.downcast_ref::<String>() {
        s.clone()
    } else {
        "<non-string panic payload>".into()
    }
}

thread_local! {
    /// location of the last panic on this thread (set by the panic hook installed by `install_panic_hook`)
    pub static LAST_PANIC_LOC: std::cell::RefCell<String> = std::cell::RefCell::new(String::new());
}

/// Install a quiet panic hook that remembers where the panic happened
pub fn install_panic_hook() {
    std::panic::set_hook(Box::new(|info| {
        let loc = info
            .location()
            .map(|l| format!("{}:{}", l.file(), l.line()))
            .unwrap_or_default();
        let _ = LAST_PANIC_LOC.try_with(|c| {
            if let Ok(mut c) = c.try_borrow_mut() {
                *c = loc.clone();
            }
        });
        if std::env::var_os("CVERIF_VERBOSE_PANIC").is_some() {
            eprintln!("panic at {}: {}", loc, panic_message(info.payload()));
        }
    }));
}

pub fn last_panic_loc() -> String {
    LAST_PANIC_LOC.with(|c| c.borrow().clone())
}
