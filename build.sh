#!/bin/sh
# developer convenience: build the native flavour and show errors only
cd /verif/harness && CARGO_NET_OFFLINE=true RUSTFLAGS="--cfg calloop_verif" CARGO_TARGET_DIR=/verif/target/native cargo build --release --offline --bins 2>&1 | grep -E "^(error|warning)" -A14 | head -${1:-80}
