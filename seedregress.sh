#!/bin/sh
# Run the quick check of its own property against every seeded change (sequentially: each run patches /repo).
# Writes seeded/<id>/last_run.txt and prints one line per seed.
cd /verif
for d in seeded/*/; do
  id=$(basename $d)
  prop=$(python3 -c "import json;print(json.load(open('$d/meta.json'))['breaks_property'])")
  out=$(./seedrun.sh $d/patch.diff $prop 2>&1)
  echo "$out" > $d/last_run.txt
  n=$(echo "$out" | grep -c "^VIOLATION")
  sigs=$(echo "$out" | grep "^# $prop/" | sed -e "s/^# $prop\///" -e 's/:.*//' | tr '\n' ' ')
  echo "$id $prop violations=$n $sigs"
done
