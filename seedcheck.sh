#!/bin/sh
# Confirm a seeded change in a scratch worktree of /repo (outside /repo and /verif):
#   seedcheck.sh <patch> <demo.rs>
# checks: patch applies and compiles, existing suite passes with it, demo passes without it, demo fails with it.
set -u
PATCH=$(readlink -f "$1"); DEMO=$(readlink -f "$2")
WT=/tmp/sc-$$
git -C /repo worktree add -q --detach $WT HEAD || exit 2
cd $WT
export CARGO_TARGET_DIR=/tmp/sc-target CARGO_NET_OFFLINE=true
FEAT='block_on executor signals stream futures-io'
cp "$DEMO" examples/seed_demo.rs
cargo run -q --offline --example seed_demo --features "$FEAT" >/tmp/sc-$$.base.log 2>&1; BASE=$?
git apply "$PATCH" || { echo "patch does not apply"; cd /; git -C /repo worktree remove --force $WT; exit 2; }
cargo test -q --workspace --no-fail-fast --offline >/tmp/sc-$$.test.log 2>&1; T1=$?
cargo test -q --no-fail-fast --offline --features "$FEAT" >/tmp/sc-$$.test2.log 2>&1; T2=$?
cargo run -q --offline --example seed_demo --features "$FEAT" >/tmp/sc-$$.mut.log 2>&1; MUT=$?
echo "demo_without_change_rc=$BASE tests_with_change_rc=$T1 tests_all_features_rc=$T2 demo_with_change_rc=$MUT"
grep -E "^test result" /tmp/sc-$$.test.log | head -2
tail -3 /tmp/sc-$$.mut.log
cd /; git -C /repo worktree remove --force $WT; rm -f /tmp/sc-$$.*.log
[ $BASE -eq 0 ] && [ $T1 -eq 0 ] && [ $T2 -eq 0 ] && [ $MUT -ne 0 ] && echo CONFIRMED || echo NOT-CONFIRMED
