#!/usr/bin/env python3
"""Print the markdown table of seeded changes (DESIGN.md section 17) from seeded/*/meta.json."""
import json, glob, os
rows = []
for d in sorted(glob.glob('/verif/seeded/*/meta.json')):
    m = json.load(open(d))
    note = m.get('note', '')
    first = 'missed at first' if note.startswith('first missed') else 'own check missed at first (a neighbour caught it)' if note.startswith('first caught only') else 'caught as built'
    rows.append('| %s | %s | %s | %s | %s |' % (m['id'], m['title'].replace('|', '/'), m['needs_to_manifest'].replace('|', '/'), '; '.join(m['caught_by']).replace('|', '/'), first))
print('| id | change | needs | caught by | first run |')
print('|---|---|---|---|---|')
print('\n'.join(rows))
