#!/usr/bin/env python3
"""Record a confirmed seeded change under /verif/seeded/<id>/ (patch.diff, demo, meta.json)."""
import json, os, shutil, sys
def add(sid, src_dir, letter, prop, title, needs, caught_by, missed_by=(), note=''):
    d = '/verif/seeded/%s' % sid
    os.makedirs(d, exist_ok=True)
    shutil.copy('%s/%s.patch' % (src_dir, letter), d + '/patch.diff')
    shutil.copy('%s/seed_demo_%s.rs' % (src_dir, letter), d + '/demo.rs')
    if os.path.exists(src_dir + '/notes.md'):
        shutil.copy(src_dir + '/notes.md', d + '/author_notes.md')
    meta = dict(
        id=sid, breaks_property=prop, title=title, needs_to_manifest=needs,
        origin='written by a fresh sub-agent that was given only the text of the property and its own scratch worktree of /repo',
        confirmed='./seedcheck.sh patch.diff demo.rs in a scratch worktree: patch applies and builds, `cargo test --workspace --no-fail-fast --offline` and the all-features suite pass with it, demo exits 0 without it and non-zero with it',
        ran='./seedrun.sh patch.diff <property...> (git -C /repo apply, ./check <property> --tier quick at VERIF_SEED=1, git -C /repo checkout -- .)',
        caught_by=list(caught_by), missed_by=list(missed_by), note=note)
    json.dump(meta, open(d + '/meta.json', 'w'), indent=1)
if __name__ == '__main__':
    spec = json.load(open(sys.argv[1]))
    for s in spec:
        add(**s)
    print('recorded', len(spec))
