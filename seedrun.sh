#!/bin/sh
# Run quick checks against a seeded change: seedrun.sh <patch> <prop> [<prop>...]
# applies the patch to /repo, runs ./check for each property, always reverts /repo.
PATCH=$(readlink -f "$1"); shift
cd /verif
git -C /repo apply "$PATCH" || { echo "patch does not apply"; exit 2; }
for p in "$@"; do
  VERIF_SEED=${VERIF_SEED:-1} ./check $p --tier ${TIER:-quick} 2>&1 | grep -E "^# C|^VIOLATION|^KNOWN|^INCONCL" | cut -c1-260
done
git -C /repo checkout -- .
git -C /repo status --short | head -3
