"""Per-property configuration of ./check: which engine binaries run, in which build flavour,
with how many shards, and what the evidence says about them."""

CARGO = ['cargo', 'build', '--release', '--offline', '--bins']

FLAVOURS = {
    'native': dict(
        rustflags='--cfg calloop_verif',
        cmd=CARGO,
        bindir='release',
    ),
}

COMMON_ASSUME = [
    'Linux/epoll back end of polling 3.11 only; other platforms are not executed',
    'verdicts cover only the executions that were run (runtime monitoring, not proof)',
    'the harness crate, its monitors and the kernel interfaces it reads (/proc/self/fdinfo, poll(2)) are trusted',
]

MANIFEST_META = dict(
    hook_commits=['0025b22'],
    engines=dict(
        tok='key-space enumerator: round trip of poller keys through calloop\'s own conversion code, token factories, kernel cross-check',
        trans='exhaustive enumerator of protocol-conforming TransientSource sequences (mock child by direct calls, real children in a real loop)',
        hist='single-threaded history engine: generated histories of loop operations and callback programs, trace + ledger + online monitors',
        sched='thread-schedule engine: client threads against a loop thread, yield-point delay plans, offline history checkers',
        sig='signals engine: one fresh single-threaded process per history, kernel signal mask / handler counters as oracle',
        aio='Async adapter engine: byte streams through adapters with random chunking, kernel readiness and fcntl flags as oracle',
        wait='wait-duration engine: timeout x timer x idle-population grid',
    ),
    notes='Runtime monitoring only: every check runs the real calloop code (built from /repo\'s working tree with --cfg calloop_verif) '
          'under generated workloads and decides with monitors over the recorded trace plus kernel probes; sanitizer legs run in the thorough tier. '
          'Known findings: known_findings.json; design: DESIGN.md.',
)

NOT_APPLICABLE = {}

HIST_RULE = ('evaluations = generated histories (10..60 steps; steps are loop operations from outside, dispatches, sleeps; every source '
             'carries a callback program of further operations and a return value) executed against a fresh real loop; '
             'non-trivial = at least one callback ran and the history contains an in-callback operation or more than two dispatches; '
             'distinct = distinct (source kinds used, in-callback operation kinds, post actions returned, batch-size class, profile) tuples')


def hist(prop, level_text, level_note, extra_assume=(), **kw):
    d = dict(
        legs=[dict(name='native', bin='hist', shards=16, timeout=dict(quick=400, thorough=3600))],
        rule=HIST_RULE,
        assumptions=COMMON_ASSUME + list(extra_assume),
        level_text=level_text,
        level_note=level_note,
        technique='runtime monitoring: generated operation histories on the real loop, online trace/ledger monitors with kernel probes (poll(2), epoll fdinfo), delta-debugged witnesses',
    )
    d.update(kw)
    return d


PROPS = {
    'C01': hist('C01', 'TBD', 'TBD'),
    'C02': hist('C02', 'TBD', 'TBD'),
    'C05': hist('C05', 'TBD', 'TBD'),
    'C06': hist('C06', 'TBD', 'TBD'),
    'C07': hist('C07', 'TBD', 'TBD'),
    'C08': hist('C08', 'TBD', 'TBD'),
    'C09': hist('C09', 'TBD', 'TBD'),
    'C13': hist('C13', 'TBD', 'TBD'),
    'C14': hist('C14', 'TBD', 'TBD'),
    'C15': hist('C15', 'TBD', 'TBD'),
    'C16': hist('C16', 'TBD', 'TBD'),
    'C18': dict(
        legs=[dict(name='native', bin='trans', shards=16, timeout=dict(quick=300, thorough=3000))],
        rule='evaluations = protocol-conforming operation sequences executed against the real TransientSource '
             '(every sequence of length 1..n over {child returns Continue/Reregister/Disable/Remove, remove(), replace(), '
             'map(), parent register/reregister/unregister}, from From<T> and from Default; mock child by direct calls, '
             'real eventfd-Generic and Timer children through a real loop); non-trivial = the sequence changed the child '
             '(disable/remove/replace/reregister) or forwarded at least one event; distinct = distinct operation sequences',
        exhaustive_scope='all protocol-conforming sequences up to the lengths given in notes, at most 3 children per sequence',
        level_text='bounded-exhaustive runtime exploration: every protocol-conforming sequence up to length 6 (quick) / 8 (thorough) is executed '
                   'against the real TransientSource with an instrumented child, and up to length 5 / 7 with real fd and timer children in a real loop; '
                   'monitors check registration state at every quiescent point. Longer sequences are not covered.',
        level_note='trusted: the protocol model that decides which sequences conform and which child is current; the mock child\'s own bookkeeping; '
                   '/proc/self/fdinfo and the timer-heap statistic hook as witnesses for real children',
        technique='runtime monitoring: bounded-exhaustive sequence enumeration with invariant monitors at quiescent points',
        assumptions=COMMON_ASSUME + ['protocol = parent register/unregister alternate, reregister only while registered, '
                                     'after a change made while registered the next registration call is reregister',
                                     'replace() on an empty wrapper and the effect of a parent register on a disabled child are not judged'],
    ),
    'C20': dict(
        legs=[dict(name='native', bin='tok', shards=16, timeout=dict(quick=300, thorough=3000))],
        rule='evaluations = (slot id, generation, sub id) triples pushed through calloop\'s own key conversion '
             '(complete 2^16 x 2^16 planes for the chosen slot ids + seeded random triples) + token-factory runs + '
             'kernel cross-check rounds; non-trivial = at least two of the three fields non-zero (triples), >= 2 tokens '
             'handed out (factories); distinct classes = (slot id, version-range) planes, factory configurations and '
             'decoded kernel keys actually seen',
        exhaustive_scope='all 2^32 (generation, sub id) pairs of every slot id listed in notes; random triples and factories are sampled',
        level_text='exhaustive execution over complete (generation, sub id) planes for 4 (quick) / 48 (thorough) slot ids incl. the boundary ids, '
                   'plus 8e6 / 1e8 random triples, token factories driven past their capacity and the kernel\'s copy of the key; the 2^32 slot ids are sampled, not enumerated',
        level_note='trusted: the hook accessors are thin wrappers over the private conversions (src/verif.rs); 64-bit layout only',
        technique='runtime monitoring: exhaustive round-trip execution of the real conversion code with assertions',
        assumptions=COMMON_ASSUME + ['64-bit usize layout (16/16/32 bits); 32- and 16-bit layouts are not compiled here'],
    ),
}
