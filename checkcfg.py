"""Per-property configuration of ./check: which engine binaries run, in which build flavour,
with how many shards, and what the evidence says about them."""

CARGO = ['cargo', 'build', '--release', '--offline', '--bins']

FLAVOURS = {
    'native': dict(
        rustflags='--cfg calloop_verif',
        cmd=CARGO,
        bindir='release',
    ),
}

COMMON_ASSUME = [
    'Linux/epoll back end of polling 3.11 only; other platforms are not executed',
    'verdicts cover only the executions that were run (runtime monitoring, not proof)',
    'the harness crate, its monitors and the kernel interfaces it reads (/proc/self/fdinfo, poll(2)) are trusted',
]

PROPS = {
    'C18': dict(
        legs=[dict(name='native', bin='trans', shards=16, timeout=dict(quick=300, thorough=3000))],
        rule='evaluations = protocol-conforming operation sequences executed against the real TransientSource '
             '(every sequence of length 1..n over {child returns Continue/Reregister/Disable/Remove, remove(), replace(), '
             'map(), parent register/reregister/unregister}, from From<T> and from Default; mock child by direct calls, '
             'real eventfd-Generic and Timer children through a real loop); non-trivial = the sequence changed the child '
             '(disable/remove/replace/reregister) or forwarded at least one event; distinct = distinct operation sequences',
        exhaustive_scope='all protocol-conforming sequences up to the lengths given in notes, at most 3 children per sequence',
        assumptions=COMMON_ASSUME + ['protocol = parent register/unregister alternate, reregister only while registered, '
                                     'after a change made while registered the next registration call is reregister',
                                     'replace() on an empty wrapper and the effect of a parent register on a disabled child are not judged'],
    ),
    'C20': dict(
        legs=[dict(name='native', bin='tok', shards=16, timeout=dict(quick=300, thorough=3000))],
        rule='evaluations = (slot id, generation, sub id) triples pushed through calloop\'s own key conversion '
             '(complete 2^16 x 2^16 planes for the chosen slot ids + seeded random triples) + token-factory runs + '
             'kernel cross-check rounds; non-trivial = at least two of the three fields non-zero (triples), >= 2 tokens '
             'handed out (factories); distinct classes = (slot id, version-range) planes, factory configurations and '
             'decoded kernel keys actually seen',
        exhaustive_scope='all 2^32 (generation, sub id) pairs of every slot id listed in notes; random triples and factories are sampled',
        assumptions=COMMON_ASSUME + ['64-bit usize layout (16/16/32 bits); 32- and 16-bit layouts are not compiled here'],
    ),
}
