"""Per-property configuration of ./check: which engine binaries run, in which build flavour,
with how many shards, and what the evidence says about them."""

CARGO = ['cargo', 'build', '--release', '--offline', '--bins']

import os as _os

_VERIF = _os.path.dirname(_os.path.abspath(__file__))
TRIPLE = 'x86_64-unknown-linux-gnu'
MIRI_RUN = ['cargo', '+nightly', 'miri', 'run', '--offline', '--manifest-path', _os.path.join(_VERIF, 'harness-miri', 'Cargo.toml')]

FLAVOURS = {
    'native': dict(
        rustflags='--cfg calloop_verif',
        cmd=CARGO,
        bindir='release',
    ),
    # one sanitizer per build; nightly toolchain, explicit target triple
    'asan': dict(
        rustflags='--cfg calloop_verif -Zsanitizer=address -Cforce-frame-pointers=yes',
        cmd=['cargo', '+nightly', 'build', '--release', '--offline', '--bins', '--target', TRIPLE],
        bindir=TRIPLE + '/release',
    ),
    'tsan': dict(
        rustflags='--cfg calloop_verif -Zsanitizer=thread',
        cmd=['cargo', '+nightly', 'build', '-Zbuild-std', '--release', '--offline', '--bin', 'sched', '--target', TRIPLE],
        bindir=TRIPLE + '/release',
    ),
    # Miri: the harness sources built against the vendored polling (see vendor/polling-miri); the build is a warm-up run
    'miri': dict(
        rustflags='--cfg calloop_verif',
        cwd='harness-miri',
        env={'MIRIFLAGS': '-Zmiri-disable-isolation'},
        cmd=MIRI_RUN + ['--bin', 'trans', '--', '--prop', 'C18', '--n', '1', '--out', ''],
        bindir='.',
    ),
}

ASAN_ENV = {'ASAN_OPTIONS': 'halt_on_error=1:detect_leaks=1:abort_on_error=0:symbolize=1', 'RUST_BACKTRACE': '0'}
TSAN_ENV = {'TSAN_OPTIONS': 'halt_on_error=1:second_deadlock_stack=1'}


def asan_leg(binname, cases):
    return dict(name='asan', bin=binname, flavour='asan', shards=16, tiers=('thorough',), sanitizer='asan', env=ASAN_ENV,
                timeout=dict(thorough=3000), args=dict(cases=cases))


def tsan_leg(cases):
    return dict(name='tsan', bin='sched', flavour='tsan', shards=16, tiers=('thorough',), sanitizer='tsan', env=TSAN_ENV,
                timeout=dict(thorough=3000), args=dict(cases=cases))


def miri_leg(binname, cases, weakmem=False, deadlock=False):
    flags = '-Zmiri-disable-isolation' + ('' if weakmem else ' -Zmiri-disable-weak-memory-emulation')
    args = dict(cases=cases)
    if weakmem:
        args['weakmem'] = 1
    return dict(name='miri-weakmem' if weakmem else 'miri', bin=binname, flavour='miri', shards=16, tiers=('thorough',), sanitizer='miri',
                runner_cmd=MIRI_RUN + ['--bin', binname, '--'], seed_flag='-Zmiri-seed=',
                env={'MIRIFLAGS': flags, 'RUSTFLAGS': '--cfg calloop_verif', 'CARGO_TARGET_DIR': _os.path.join(_VERIF, 'target', 'miri')},
                timeout=dict(thorough=3000), args=args, deadlock_is_violation=deadlock)


def memcheck_leg(binname, cases):
    return dict(name='memcheck', bin=binname, flavour='native', shards=8, tiers=('thorough',), sanitizer='memcheck',
                runner=['valgrind', '--quiet', '--error-exitcode=99', '--errors-for-leak-kinds=definite', '--leak-check=full', '--num-callers=30'],
                sanitizer_markers=['Invalid read', 'Invalid write', 'uninitialised', 'definitely lost', 'Invalid free', 'Mismatched free'],
                timeout=dict(thorough=3000), args=dict(cases=cases, budget=1200))

COMMON_ASSUME = [
    'Linux/epoll back end of polling 3.11 only; other platforms are not executed',
    'verdicts cover only the executions that were run (runtime monitoring, not proof)',
    'the harness crate, its monitors and the kernel interfaces it reads (/proc/self/fdinfo, poll(2)) are trusted',
]

MANIFEST_META = dict(
    hook_commits=['0025b22', '27b8e20'],
    engines=dict(
        tok='key-space enumerator: round trip of poller keys through calloop\'s own conversion code, token factories, kernel cross-check',
        trans='exhaustive enumerator of protocol-conforming TransientSource sequences (mock child by direct calls, real children in a real loop)',
        hist='single-threaded history engine: generated histories of loop operations and callback programs, trace + ledger + online monitors',
        sched='thread-schedule engine: client threads against a loop thread, yield-point delay plans, offline history checkers',
        sig='signals engine: one fresh single-threaded process per history, kernel signal mask / handler counters as oracle',
        aio='Async adapter engine: byte streams through adapters with random chunking, kernel readiness and fcntl flags as oracle',
        wait='wait-duration engine: timeout x timer x idle-population grid',
    ),
    notes='Runtime monitoring only: every check runs the real calloop code (built from /repo\'s working tree with --cfg calloop_verif) '
          'under generated workloads and decides with monitors over the recorded trace plus kernel probes; sanitizer legs run in the thorough tier. '
          'Known findings: known_findings.json; design: DESIGN.md.',
)

NOT_APPLICABLE = {}

HIST_RULE = ('evaluations = generated histories (10..60 steps; steps are loop operations from outside, dispatches, sleeps; every source '
             'carries a callback program of further operations and a return value) executed against a fresh real loop; '
             'non-trivial = at least one callback ran and the history contains an in-callback operation or more than two dispatches; '
             'distinct = distinct (source kinds used, in-callback operation kinds, post actions returned, batch-size class, profile) tuples')


def hist(prop, level_text, level_note, extra_assume=(), **kw):
    d = dict(
        level='fault_enumeration' if prop == 'C15' else 'exploration',
        legs=[dict(name='native', bin='hist', shards=16, timeout=dict(quick=400, thorough=3600)), asan_leg('hist', 60000)]
        + ([memcheck_leg('hist', 1600)] if prop == 'C06' else []),
        rule=HIST_RULE,
        assumptions=COMMON_ASSUME + list(extra_assume),
        level_text=level_text,
        level_note=level_note,
        technique='runtime monitoring: generated operation histories on the real loop, online trace/ledger monitors with kernel probes (poll(2), epoll fdinfo), delta-debugged witnesses',
    )
    d.update(kw)
    return d


SCHED_RULE = ('evaluations = executions of a scripted multi-thread workload (1..6 client threads x 1..12 operations against a dispatching loop thread, '
              'schedule perturbed at calloop\'s yield points by a seeded PCT-style delay plan: up to 3 long delays of 0.2-3 ms plus short random ones); '
              'every call is recorded before invoking and after returning in per-thread buffers ordered by one global relaxed sequence counter and checked offline; '
              'non-trivial = at least one cross-thread operation happened; distinct = distinct multisets of interleaving classes (where each cross-thread step landed relative to the loop thread\'s steps)')

SCHED_NOTE = ('trusted: the yield-point recorder (thread-local buffers, one relaxed global sequence counter, merged after join), the offline checkers, '
              '/proc/self/task/<tid>/syscall for the state-based hang verdicts; schedules are sampled, not enumerated')


def sched(prop, level_text, required, extra_legs=(), **kw):
    ncases = dict(quick=4000, thorough=40000 if prop == 'C11' else 120000)
    d = dict(
        legs=[dict(name='native', bin='sched', shards=16, timeout=dict(quick=500, thorough=3600), args=dict(cases=ncases))] + list(extra_legs)
        + [asan_leg('sched', 6000 if prop == 'C11' else 16000), tsan_leg(6000 if prop == 'C11' else 16000), miri_leg('sched', 160, deadlock=prop in ('C03', 'C11')), miri_leg('sched', 96, weakmem=True, deadlock=prop in ('C03', 'C11'))],
        rule=SCHED_RULE,
        assumptions=COMMON_ASSUME + ['unbounded "eventually" is restated as: by quiescence (all client threads joined, loop dispatched until idle), plus a state-based lost-wake predicate (a 200 ms dispatch times out although something is owed)',
                                     'x86-64 host: weak-memory reorderings are visible only to the Miri leg'],
        level_text=level_text,
        level_note=SCHED_NOTE,
        required_cov=dict(quick=required, thorough={k: v * 20 for k, v in required.items()}),
        technique='runtime monitoring: delay-injected thread schedules at yield points, recorded histories checked offline (exactly-once, order, no-lost-wake), TSan and Miri legs in the thorough tier',
    )
    d.update(kw)
    return d


HIST_LEG = dict(name='hist', bin='hist', shards=8, timeout=dict(quick=400, thorough=3600), args=dict(cases=dict(quick=6000, thorough=100000)))

PROPS = {
    'C17': dict(
        legs=[dict(name='native', bin='aio', shards=16, timeout=dict(quick=400, thorough=3600)), asan_leg('aio', 3200), memcheck_leg('aio', 160)],
        rule='evaluations = transfers of a random byte string (1 B .. 512 KiB quick / 4 MiB thorough) through Async adapters over a socketpair or pipe with random chunk sizes (1 B .. 1 MiB), '
             'write/write_all/write_vectored/writable()+direct write against read/read_vectored/readable()+direct read, peer as task or as blocking thread, tasks on calloop\'s executor or under block_on, '
             'fds blocking or non-blocking beforehand, adapters ended by drop or into_inner; every transfer is non-trivial; distinct = distinct (size class, chunk class, transport, who is a thread, modes, blocking-before, driver, ending) tuples',
        assumptions=COMMON_ASSUME + ['two tasks polling one adapter concurrently are outside the statement (&mut API, one waker slot) and are not generated',
                                     '"always completes" is restated as: no 100 ms dispatch may pass without a task poll while a pending task\'s fd is ready for what it awaits (poll(2)); a mere watchdog expiry is inconclusive'],
        level_text='sampled runtime exploration: 1.6k (quick) / 40k (thorough) transfers checked byte for byte, with the kernel-readiness lost-wake predicate, O_NONBLOCK inside the adapter and restored after drop/into_inner (F_GETFL), and re-adaptation of the unwrapped fd.',
        level_note='trusted: poll(2)/fcntl as oracle, futures-util\'s AsyncReadExt/AsyncWriteExt combinators, the per-task poll counter',
        technique='runtime monitoring: randomized byte-stream transfers with content comparison and kernel-state predicates',
    ),
    'C19': dict(
        legs=[dict(name='native', bin='sig', shards=16, timeout=dict(quick=300, thorough=3000), args=dict(cases=dict(quick=480000, thorough=16000000)))],
        rule='evaluations = histories over {Signals::new, add_signals, remove_signals, set_signals with arbitrary subsets, kill(getpid) 1..3 times, dispatch, drop} '
             'of 3 signals (length <= 5) and of 6 signals (length <= 12), each executed in a single-threaded process from the pristine signal state, with counting '
             'sigaction handlers as witnesses of unblocked deliveries; non-trivial = a signal was reported or the mask changed while a signal was pending; '
             'distinct = distinct sequences of (operation kind, pending?, number of configured signals)',
        assumptions=COMMON_ASSUME + ['standard signals coalesce: the oracle works on the set of pending signals, not on counts',
                                     'a pending instance of a signal that gets de-configured may go to the process handler or be dropped; both are accepted',
                                     'one process runs many histories; each must return to the pristine state (checked) before the next starts'],
        level_text='sampled runtime exploration: 480k (quick) / 16M (thorough) histories; after every call pthread_sigmask must equal the configured set, sigpending must still hold every configured raised signal, '
                   'handler counters must equal the raises of unconfigured signals; every dispatch must report exactly the pending configured set with signal number, pid and uid; drop unblocks.',
        level_note='trusted: the kernel\'s pthread_sigmask/sigpending/sigaction as oracle, the small set model (configured, pending) in the engine',
        technique='runtime monitoring: generated operation histories in a single-threaded process with kernel signal state as oracle',
    ),
    'C12': dict(
        legs=[dict(name='native', bin='wait', shards=16, timeout=dict(quick=400, thorough=2400))],
        parallel=8,
        rule='evaluations = measured dispatch calls, one fresh loop per cell of the grid timeout {0, 5, 40, 200 ms, None} x armed timer {none, earlier, equal, later, expired, +1 h, unrepresentable, '
             'earlier after set_deadline from unrepresentable} x idle population {empty, ping with live handle, ping with all handles gone, channel with all senders gone, empty executor, not-ready level fd, '
             'ready fd with empty interest, fired one-shot, disabled sources holding pending readiness, self-removed source whose slot was reused, sync channel drained exactly at its bound, '
             'rendezvous channel after a refused try_send, channel after exactly 1024 messages, queued idle callback, cancelled idle callback, adapter waiting for readability after a wait for writability, timer removed after its deadline passed undispatched, timer re-armed into the past and disabled, lifecycle source whose before_sleep takes 60 ms, signals interrupting the wait (EINTR) at 30/55/75 %, both}; '
             'every cell is non-trivial; distinct = distinct cells',
        exhaustive_scope='the whole grid (840 cells) once (quick) or five times (thorough)',
        assumptions=COMMON_ASSUME + ['lower bounds (no spinning) are exact; the upper bound is limit + max(150 ms, 2 x limit) and only three consecutive exceedances of the same cell count, a minority is recorded as inconclusive',
                                     'time spent inside the user\'s own before_sleep hook is the user\'s: a timeout runs from the start of the wait; a timer deadline is absolute, so with a slow hook and a deadline as the limit the ceiling is max(limit, hook) + 0.6 x min(limit, hook)'],
        level_text='grid exploration with wall-clock measurement: elapsed >= 0.9 x min(timeout, time to earliest deadline) - 1 ms, the limiting timer fired in that dispatch, no idle source was invoked, '
                   'zero timeout and the upper bound checked with retries; with None and nothing armed a helper thread pings after 30 ms.',
        level_note='trusted: Instant::now around the call; scheduler latency below 150 ms on three consecutive tries',
        technique='runtime monitoring: timing grid with exact lower bounds and retried upper bounds',
    ),
    'C03': sched('C03', 'sampled schedules: 4k (quick) / 120k (thorough) executions of k pinger threads with cloned handles against a dispatching loop; no_lost, coalesce, no_spurious (against the drain windows seen at the yield points), '
                 'clean close, no spinning, lost-wake state predicate; plus single-threaded ping/clone/drop/disable/enable histories in the hist engine.',
                 {'ping-write:between-drain-pre-and-post': 1, 'ping-write:between-drain-post-and-callback-end': 1, 'ping-write:loop-inside-the-wait': 1, 'ping-write:outside-dispatch-or-between-events': 1, 'close:last-clone-dropped-on-foreign-thread': 1},
                 extra_legs=[HIST_LEG]),
    'C04': sched('C04', 'sampled schedules of 1..6 sender threads (send, try_send, clone, drop) on channel() and sync_channel(0|1|2|8): exactly-once, per-sender order, single Closed after every sender began to drop, nothing after Closed, '
                 'no stranded message (state predicate), bounded progress of blocking sends (all senders parked in futex during 25 idle dispatches = stuck), queue lengths below/at/above the 1024 batch limit; plus single-threaded channel histories in the hist engine.',
                 {'wake-write:between-drain-pre-and-post': 1, 'wake-write:loop-inside-the-wait': 1, 'sync-send-found-channel-full': 1, 'self-rewake-at-batch-limit-or-capacity': 1, 'batch:above-limit': 1, 'batch:at-limit': 1, 'batch:below-limit': 1},
                 extra_legs=[HIST_LEG]),
    'C10': sched('C10', 'sampled schedules of 1..6 waker threads against instrumented futures on calloop\'s executor: polled after schedule and after every returned wake (by quiescence), lost-wake state predicate, polled/dropped on the loop thread only, '
                 'results exactly once, executor dropped while wakers are active, queue sizes around 1024, scheduling from callbacks and futures; executor and StreamSource single-threaded histories in the hist engine.',
                 {'send:between-clear-pre-and-post': 1, 'send:after-flag-cleared-while-draining': 1, 'send:while-draining': 1, 'send:loop-inside-the-wait': 1, 'flag-cleared-between-enqueue-and-swap': 1, 'executor-dropped-with-active-wakers': 1, 'batch:above-limit': 1},
                 extra_legs=[HIST_LEG]),
    'C11': sched('C11', 'sampled schedules (4k quick / 40k thorough): stop()+wakeup() from a controller thread at a planned moment of run(None|5 ms) (returns Ok, at most one iteration begins afterwards, never returns before the request; a hang is decided by state: loop thread parked in epoll_wait on 5 samples after the request returned), '
                 'wakeup() before the wait (single-threaded), bare wakeup() calls from a second thread against run(None) with a dawdling per-iteration closure (every returned wakeup must be followed by a wait that ends; verdict needs the loop thread parked in epoll_wait), block_on with a future woken from 1..6 threads or pre-empted by stop() (polls caused by the harness\' own later wakes do not count); in two cases of five a timer 45-75 s ahead bounds every untimed wait; a second block_on on the same loop; stop() followed by a wake of the future issued on the loop thread inside a dispatch (must give None after exactly one poll). Thorough tier: the Miri legs report an interpreter-detected deadlock of these workloads as a violation.',
                 {'signal:loop-inside-the-wait': 1, 'signal:after-stop-check-before-wait': 1, 'wakeup:no-wait-in-progress': 1, 'wakeup:loop-inside-the-wait': 1, 'wake:loop-inside-the-wait': 1, 'wake:after-poll-before-wait': 1, 'wake:between-flag-swap-and-poll-end': 1, 'wakeup-before-wait': 1, 'block_on:completed': 1, 'block_on:stopped': 1}),
    'C01': hist('C01', "sampled runtime exploration: 24k (quick) / 400k (thorough) generated histories with few slots, immediate slot reuse, stale tokens of every removed source, composites with 1..6 sub-sources (incl. TransientSource children) and all mutations also issued from callbacks; every callback invocation is checked for liveness of its source and for a cause of its own (ping count, head of its channel queue, current timer arming, poll(2) on the sub-source's own fd). Histories, not all of them; <200 reuses per slot.", 'trusted: the harness ledger (a record of what the harness did and what the API returned), the instrumented wrapper source (forwards to the real calloop sources, logs, injects the faults a history asks for), poll(2)//proc/self/fdinfo as ground truth for fd readiness and registrations, the statistics hook; real time only through Instants taken by the harness around calls'),
    'C02': hist('C02', 'sampled runtime exploration: before every dispatch the set of enabled sources with a pending cause is computed from the ledger and from poll(2) (per interest and trigger mode); after an Ok dispatch each of them must have been invoked unless a callback of that dispatch touched it. Up to 24 (quick) / 96 (thorough) sources per history, all interest x mode combinations; batches above the 1024 poller batch size are exercised only through channel/executor queues in the sched engine.', 'trusted: the harness ledger (a record of what the harness did and what the API returned), the instrumented wrapper source (forwards to the real calloop sources, logs, injects the faults a history asks for), poll(2)//proc/self/fdinfo as ground truth for fd readiness and registrations, the statistics hook; real time only through Instants taken by the harness around calls'),
    'C05': hist('C05', "sampled runtime exploration with exact Instant comparisons: every arming (insert, ToInstant/ToDuration, set_deadline+update, re-enable) is a ledger record; clauses never_early, event_is_deadline, order, once, first_dispatch, cancel_final and heap-length residue are checked on 8k (quick) / 120k (thorough) histories with past/now/+1..12ms/far/unrepresentable deadlines, actions from other sources' callbacks in the same dispatch and failing sources.", 'trusted: the harness ledger (a record of what the harness did and what the API returned), the instrumented wrapper source (forwards to the real calloop sources, logs, injects the faults a history asks for), poll(2)//proc/self/fdinfo as ground truth for fd readiness and registrations, the statistics hook; real time only through Instants taken by the harness around calls'),
    'C06': hist('C06', 'sampled runtime exploration of every removal path (outside, self, other, PostAction::Remove, TimeoutAction::Drop, closed ping/channel, ended stream) with immediate re-insertion and later use of every token ever issued; released = into_source_inner succeeds at the end of the dispatch, drop-counting guards on every source, callback, idle and future, slot statistics, loop drop in both orders.', 'trusted: the harness ledger (a record of what the harness did and what the API returned), the instrumented wrapper source (forwards to the real calloop sources, logs, injects the faults a history asks for), poll(2)//proc/self/fdinfo as ground truth for fd readiness and registrations, the statistics hook; real time only through Instants taken by the harness around calls'),
    'C07': hist('C07', "sampled runtime exploration of disable/enable/update from outside, from the source itself and from other callbacks with the victim's event already collected; silence while disabled, token validity, readiness retained across the gap (via the pending-cause monitor) and no registration call on any other source.", 'trusted: the harness ledger (a record of what the harness did and what the API returned), the instrumented wrapper source (forwards to the real calloop sources, logs, injects the faults a history asks for), poll(2)//proc/self/fdinfo as ground truth for fd readiness and registrations, the statistics hook; real time only through Instants taken by the harness around calls'),
    'C08': hist('C08', 'sampled runtime exploration of callback programs (up to 6 operations per invocation, nesting depth 3, idle callbacks as runners, adapt_io and insert_idle inside callbacks); any panic unwinding out of a dispatch or operation with a location inside calloop is a violation; clause effect_as_outside fires when the accounting of deferred in-callback operations (registration calls owed/made, pending action) goes wrong; other effects are judged by the other monitors on the following dispatches. The evidence lists every (running source kind x operation) pair that ran inside callbacks (events_observed in:<kind>:<op>).', 'trusted: the harness ledger (a record of what the harness did and what the API returned), the instrumented wrapper source (forwards to the real calloop sources, logs, injects the faults a history asks for), poll(2)//proc/self/fdinfo as ground truth for fd readiness and registrations, the statistics hook; real time only through Instants taken by the harness around calls'),
    'C09': hist('C09', 'sampled runtime exploration with registration-call accounting: every register/reregister/unregister call the loop makes is attributed to an explicit operation or to the post-action window of the source whose process_events just ended; anything else is a foreign action; the window must contain exactly the calls the effective action asks for; pending action must be clear outside dispatches; all 16 BitOr pairs.', 'trusted: the harness ledger (a record of what the harness did and what the API returned), the instrumented wrapper source (forwards to the real calloop sources, logs, injects the faults a history asks for), poll(2)//proc/self/fdinfo as ground truth for fd readiness and registrations, the statistics hook; real time only through Instants taken by the harness around calls'),
    'C13': hist('C13', 'bounded-exhaustive family (every sequence of 1..5 quick / 1..6 thorough symbols of a 10-symbol idle alphabet) plus sampled histories of insert_idle/cancel/drop-handle from outside, from source callbacks and from idle callbacks, with dispatches that succeed or fail: once, after sources, insertion order, first Ok dispatch, cancelled never, idle-from-idle next dispatch, no idle on Err.', 'trusted: the harness ledger (a record of what the harness did and what the API returned), the instrumented wrapper source (forwards to the real calloop sources, logs, injects the faults a history asks for), poll(2)//proc/self/fdinfo as ground truth for fd readiness and registrations, the statistics hook; real time only through Instants taken by the harness around calls'),
    'C14': hist('C14', 'sampled runtime exploration with 1..n lifecycle sources (multi sub-token composites included), synthetic events, failing registrations: per dispatch exactly one before_sleep before the wait and one before_handle_events after it and before any process_events (order taken from yield points WaitPre/WaitPost), iterator contents against the processed events, lifecycle-set size at quiescent points.', 'trusted: the harness ledger (a record of what the harness did and what the API returned), the instrumented wrapper source (forwards to the real calloop sources, logs, injects the faults a history asks for), poll(2)//proc/self/fdinfo as ground truth for fd readiness and registrations, the statistics hook; real time only through Instants taken by the harness around calls'),
    'C15': hist('C15', 'fault-injection exploration: the n-th register/reregister/unregister of a source fails before or after delegating, fds the poller rejects (regular file, duplicate, closed), failing adapt_io, callbacks returning errors; after each failed call the slot/lifecycle/timer/epoll tables must equal the snapshot taken before it, retries must succeed, later dispatches must not panic and nothing pending may be lost (recovery dispatches after every failing dispatch); registering a Dispatcher that is registered already must be rejected and leave everything, including the source\'s own event delivery, as it was.', 'trusted: the harness ledger (a record of what the harness did and what the API returned), the instrumented wrapper source (forwards to the real calloop sources, logs, injects the faults a history asks for), poll(2)//proc/self/fdinfo as ground truth for fd readiness and registrations, the statistics hook; real time only through Instants taken by the harness around calls'),
    'C16': hist('C16', "sampled runtime exploration comparing /proc/self/fdinfo of the loop's epoll fd with the ledger after every step and dispatch: every enabled source's fds with interest/mode mask and the source's key, nothing else; released fds (removed Generic, unwrapped adapter) are inserted again and must be accepted. Interest and trigger mode of registered Generics are changed (Retarget + update) and the kernel's event mask compared; callbacks may own an Async adapter that borrows an fd outliving it (the entry must be gone once the adapter is). Histories with a registration failure are not judged (the property excludes them).", 'trusted: the harness ledger (a record of what the harness did and what the API returned), the instrumented wrapper source (forwards to the real calloop sources, logs, injects the faults a history asks for), poll(2)//proc/self/fdinfo as ground truth for fd readiness and registrations, the statistics hook; real time only through Instants taken by the harness around calls'),
    'C18': dict(
        legs=[dict(name='native', bin='trans', shards=16, timeout=dict(quick=300, thorough=3000)),
              dict(name='asan', bin='trans', flavour='asan', shards=16, tiers=('thorough',), sanitizer='asan', env=ASAN_ENV, timeout=dict(thorough=3000), args=dict(n=7, nreal=6)),
              dict(name='miri', bin='trans', flavour='miri', shards=16, tiers=('thorough',), sanitizer='miri', runner_cmd=MIRI_RUN + ['--bin', 'trans', '--'],
                   env={'MIRIFLAGS': '-Zmiri-disable-isolation', 'RUSTFLAGS': '--cfg calloop_verif', 'CARGO_TARGET_DIR': _os.path.join(_VERIF, 'target', 'miri')},
                   timeout=dict(thorough=3000), args=dict(n=5, nreal=0))],
        rule='evaluations = protocol-conforming operation sequences executed against the real TransientSource '
             '(every sequence of length 1..n over {child returns Continue/Reregister/Disable/Remove, remove(), replace(), '
             'map(), parent register/reregister/unregister}, from From<T> and from Default; mock child by direct calls, '
             'real eventfd-Generic and Timer children through a real loop); non-trivial = the sequence changed the child '
             '(disable/remove/replace/reregister) or forwarded at least one event; distinct = distinct operation sequences',
        exhaustive_scope='all protocol-conforming sequences up to the lengths given in notes, at most 3 children per sequence',
        level_text='bounded-exhaustive runtime exploration: every protocol-conforming sequence up to length 6 (quick) / 8 (thorough) is executed '
                   'against the real TransientSource with an instrumented child, and up to length 5 / 7 with real fd and timer children in a real loop; '
                   'monitors check registration state at every quiescent point, and the mock child reports every registration made while another child of the wrapper is still registered. Longer sequences are not covered.',
        level_note='trusted: the protocol model that decides which sequences conform and which child is current; the mock child\'s own bookkeeping; '
                   '/proc/self/fdinfo and the timer-heap statistic hook as witnesses for real children',
        technique='runtime monitoring: bounded-exhaustive sequence enumeration with invariant monitors at quiescent points',
        assumptions=COMMON_ASSUME + ['protocol = parent register/unregister alternate, reregister only while registered; after a change made while '
                                     'registered the wrapper asks for a re-registration, and the next registration call is either that reregister or the '
                                     'parent\'s own unregister (the parent was disabled or removed first)',
                                     'replace() on an empty wrapper and the effect of a parent register on a disabled child are not judged'],
    ),
    'C20': dict(
        legs=[dict(name='native', bin='tok', shards=16, timeout=dict(quick=300, thorough=3000))],
        rule='evaluations = (slot id, generation, sub id) triples pushed through calloop\'s own key conversion '
             '(complete 2^16 x 2^16 planes for the chosen slot ids + seeded random triples) + token-factory runs + '
             'kernel cross-check rounds; non-trivial = at least two of the three fields non-zero (triples), >= 2 tokens '
             'handed out (factories); distinct classes = (slot id, version-range) planes, factory configurations and '
             'decoded kernel keys actually seen',
        exhaustive_scope='all 2^32 (generation, sub id) pairs of every slot id listed in notes; random triples and factories are sampled',
        level_text='exhaustive execution over complete (generation, sub id) planes for 4 (quick) / 48 (thorough) slot ids incl. the boundary ids, '
                   'plus 8e6 / 1e8 random triples, token factories driven past their capacity and the kernel\'s copy of the key; the 2^32 slot ids are sampled, not enumerated',
        level_note='trusted: the hook accessors are thin wrappers over the private conversions (src/verif.rs); 64-bit layout only',
        technique='runtime monitoring: exhaustive round-trip execution of the real conversion code with assertions',
        assumptions=COMMON_ASSUME + ['64-bit usize layout (16/16/32 bits); 32- and 16-bit layouts are not compiled here'],
    ),
}
